/-
  Driver for Model/NNSP.lean.

    new nnsp <k>
      build <dim> <n1> <n2> <n1*dim + n2*dim float bits> adj <m> <m strings over 0/1>
        -> ok <n> D <n*dim bits> v1 <0/1 string> v2 <0/1 string> knn <0|1> nnps <n*n nats> dist <bits>
         | reject
    new nndvi <k> <sampling_times> <z bits>
      ref <dim> <n> <n*dim float bits>                     -> ok
      batch <dim> <n> <bits> adj <m> <rows> perms <p> <p comma-separated index lists>
        -> ok <N|D> <total> <since> d <bits> th <bits> knn <0|1> ref <rows> <bits…>
         | reject <N|D> <total> <since> ref <rows> <bits…>
-/
import MenelausVerif.Driver.Core
import MenelausVerif.Model.NNSP
namespace MV.Driver
open MV MV.NNSP

private def chunk {β : Type} (d : Nat) (xs : List β) : List (List β) :=
  if d = 0 then [] else
  let rec go (fuel : Nat) (xs : List β) : List (List β) :=
    match fuel, xs with
    | 0, _ => []
    | _, [] => []
    | fuel + 1, xs => xs.take d :: go fuel (xs.drop d)
  go xs.length xs

private def parseBits? (s : String) : Option (List Bool) :=
  s.toList.mapM (fun c => if c = '1' then some true else if c = '0' then some false else none)

private def showBits (bs : List Bool) : String := String.ofList (bs.map (fun b => if b then '1' else '0'))

/-- `<m> <m strings>`; an empty matrix is written `0` -/
private def parseAdj? (ts : List String) : Option (List (List Bool) × List String) :=
  match ts with
  | m :: rest =>
    match m.toNat? with
    | some m =>
      if rest.length < m then none else
      match (rest.take m).mapM parseBits? with
      | some rows => some (rows, rest.drop m)
      | none => none
    | none => none
  | [] => none

/-- `<dim> <n> <n*dim bits>` -/
private def parseRows? (dim n : Nat) (ts : List String) : Option (List (Row Float) × List String) :=
  if ts.length < n * dim then none else
  match parseFloats? (ts.take (n * dim)) with
  | some fs => some (chunk dim fs, ts.drop (n * dim))
  | none => none

private def showRows (rs : List (Row Float)) : String :=
  toString rs.length ++ " " ++ showFloats rs.flatten

private def nnspStep (k : Nat) : List String → Option String
  | "build" :: dim :: n1 :: n2 :: ts =>
    match dim.toNat?, n1.toNat?, n2.toNat? with
    | some dim, some n1, some n2 =>
      match parseRows? dim n1 ts with
      | some (s1, ts) =>
        match parseRows? dim n2 ts with
        | some (s2, "adj" :: ts) =>
          match parseAdj? ts with
          | some (adj, []) =>
            match build k s1 s2 adj with
            | none => some "reject"
            | some b =>
              let d : Float := nnpsDistance b.nnps b.v1 b.v2
              some ("ok " ++ toString b.pool.length ++ " D " ++ showFloats b.pool.flatten ++
                " v1 " ++ showBits b.v1 ++ " v2 " ++ showBits b.v2 ++ " knn " ++ showBool b.knnOk ++
                " nnps " ++ showNats b.nnps.flatten ++ " dist " ++ showFloat d)
          | _ => none
        | _ => none
      | none => none
    | _, _, _ => none
  | _ => none

private def parsePerm? (s : String) : Option (List Nat) :=
  if s = "-" then some [] else (s.splitOn ",").mapM String.toNat?

private def showState (s : NNDVI.State Float) : String :=
  s.drift.toStr ++ " " ++ toString s.total ++ " " ++ toString s.since

private def showRef (s : NNDVI.State Float) : String :=
  match s.reference with
  | some r => "ref " ++ showRows r
  | none => "ref _"

private def nndviStep (c : NNDVI.Cfg Float) (s : NNDVI.State Float) : List String → Option (String × NNDVI.State Float)
  | "ref" :: dim :: n :: ts =>
    match dim.toNat?, n.toNat? with
    | some dim, some n =>
      match parseRows? dim n ts with
      | some (X, []) => some ("ok", NNDVI.setReference s X)
      | _ => none
    | _, _ => none
  | "batch" :: dim :: n :: ts =>
    match dim.toNat?, n.toNat? with
    | some dim, some n =>
      match parseRows? dim n ts with
      | some (X, "adj" :: ts) =>
        match parseAdj? ts with
        | some (adj, "perms" :: p :: ts) =>
          match p.toNat?, ts.mapM parsePerm? with
          | some p, some perms =>
            if perms.length ≠ p then none else
            let (s', o) := NNDVI.step c s X adj perms
            match o with
            | .rejected => some ("reject " ++ showState s' ++ " " ++ showRef s', s')
            | .ok d θ knn =>
              if !NNDVI.drawsOk c s X perms then none else
              some ("ok " ++ showState s' ++ " d " ++ showFloat d ++ " th " ++ showFloat θ ++ " knn " ++ showBool knn ++
                " " ++ showRef s', s')
          | _, _ => none
        | _ => none
      | _ => none
    | _, _ => none
  | _ => none

def mkNNSP : List String → Option Machine
  | ["nnsp", k] =>
    match k.toNat? with
    | some k => some (pureMachine (nnspStep k))
    | none => none
  | ["nndvi", k, st, z] =>
    match k.toNat?, st.toNat?, parseFloat? z with
    | some k, some st, some z =>
      some { σ := NNDVI.State Float, s := NNDVI.init, step := nndviStep { k := k, samplingTimes := st, z := z } }
    | _, _, _ => none
  | _ => none

end MV.Driver
