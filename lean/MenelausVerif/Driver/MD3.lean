/-
  Line protocol of the MD3 model.

    new md3 <sens> <oracleLen|_> <ncols> <col…> <ref>
    <d> u <rows> <inMargin>
    <d> l <rows> <correct> <ncols> <col…> <ref>
    <d> show                                 prints the state after the first d calls, changes nothing

  where `<ref>` describes the batch `set_reference` is (or would be) called with, in one of two forms:
    <len> <md> <mdStd> <acc> <accStd>      ready-made statistics (oracle form, Model/MD3.lean `step`)
    F <k> <fold_1> … <fold_k>              the k-fold bit lists; the statistics are computed by
                                           Model/MD3Ref.lean (`initF` / `stepF` / `refStats`).
  A fold is one token with one digit per test sample, `2*inMargin + correct` (0…3), in the order of
  KFold's `test_index`; `-` is the empty fold.

  The machine keeps the states of the current call sequence as a stack; `<d>` says
  that the call is applied to the state reached after the first `d` calls of the
  sequence (the calls after it are dropped), so that a depth-first walk over a tree
  of call sequences needs one line per node.  A plain sequence uses d = 0, 1, 2, ….

  Every op prints
    <outcome> <drift> <waiting> <nLabels> <total> <since> <oracleReq> <md> <lam> <len> <refMd> <mdStd> <acc> <accStd>
  (floats as bit patterns).
-/
import MenelausVerif.Driver.Core
import MenelausVerif.Model.MD3
import MenelausVerif.Model.MD3Ref
namespace MV.Driver
open MV MV.MD3

private structure MD3M where
  c : Cfg Float
  stack : Array (State Float)

private def parseRef? : List String → Option (Ref Float)
  | [len, md, mdStd, acc, accStd] =>
    match len.toNat?, parseFloat? md, parseFloat? mdStd, parseFloat? acc, parseFloat? accStd with
    | some len, some md, some mdStd, some acc, some accStd =>
      some { len := len, md := md, mdStd := mdStd, acc := acc, accStd := accStd }
    | _, _, _, _, _ => none
  | _ => none

private def parseSample? : Char → Option Sample
  | '0' => some (false, false)
  | '1' => some (false, true)
  | '2' => some (true, false)
  | '3' => some (true, true)
  | _ => none

private def parseFold? (t : String) : Option Fold :=
  if t = "-" then some [] else if t.isEmpty then none else t.toList.mapM parseSample?

/-- either form of `<ref>` -/
private def parseRefOrFolds? : List String → Option (Sum (Ref Float) (List Fold))
  | "F" :: k :: folds =>
    match k.toNat? with
    | some k => if folds.length ≠ k then none else (folds.mapM parseFold?).map Sum.inr
    | none => none
  | ts => (parseRef? ts).map Sum.inl

/-- `<ncols> <col…> rest` -/
private def parseCols? : List String → Option (List Nat × List String)
  | n :: ts =>
    match n.toNat? with
    | some n =>
      if ts.length < n then none
      else match parseNats? (ts.take n) with
        | some cs => some (cs, ts.drop n)
        | none => none
    | none => none
  | [] => none

private def refusalStr : Refusal → String
  | .updateWaiting => "R:update-waiting"
  | .updateRows => "R:update-rows"
  | .labelNotWaiting => "R:label-not-waiting"
  | .labelRows => "R:label-rows"
  | .labelCols => "R:label-cols"

private def outcomeStr : Outcome → String
  | .accepted => "ok"
  | .refused r => refusalStr r

private def md3Show (o : Outcome) (s : State Float) : String :=
  " ".intercalate [outcomeStr o, s.drift.toStr, showBool s.waiting, toString s.labels.length,
    toString s.total, toString s.since, toString s.oracleReq, showFloat s.md, showFloat s.lam,
    toString s.ref.len, showFloat s.ref.md, showFloat s.ref.mdStd, showFloat s.ref.acc,
    showFloat s.ref.accStd]

private def md3Apply (m : MD3M) (d : Nat) (op : Sum (Op Float) OpF) : Option (String × MD3M) :=
  match m.stack[d]? with
  | some s =>
    let (s', o) := match op with
      | .inl op => step m.c s op
      | .inr op => stepF m.c s op
    some (md3Show o s', { m with stack := (m.stack.extract 0 (d + 1)).push s' })
  | none => none

private def md3Step (m : MD3M) : List String → Option (String × MD3M)
  | [d, "show"] =>
    match d.toNat? with
    | some d => (m.stack[d]?).map (fun s => (md3Show .accepted s, m))
    | none => none
  | [d, "u", rows, sig] =>
    match d.toNat?, rows.toNat?, parseBool? sig with
    | some d, some rows, some sig => md3Apply m d (.inl (.update rows sig))
    | _, _, _ => none
  | d :: "l" :: rows :: correct :: rest =>
    match d.toNat?, rows.toNat?, parseBool? correct, parseCols? rest with
    | some d, some rows, some correct, some (cols, rest) =>
      match parseRefOrFolds? rest with
      | some (.inl r) => md3Apply m d (.inl (.label rows cols correct r))
      | some (.inr folds) => md3Apply m d (.inr (.label rows cols correct folds))
      | none => none
    | _, _, _, _ => none
  | _ => none

private def parseOptNat? (t : String) : Option (Option Nat) :=
  if t = "_" then some none else t.toNat?.map some

def mkMD3 : List String → Option Machine
  | "md3" :: sens :: olen :: rest =>
    match parseFloat? sens, parseOptNat? olen, parseCols? rest with
    | some sens, some olen, some (cols, rest) =>
      let c : Cfg Float := { sens := sens, oracleLen := olen, refCols := cols }
      match parseRefOrFolds? rest with
      | some (.inl r) => some { σ := MD3M, s := { c := c, stack := #[init c r] }, step := md3Step }
      | some (.inr folds) => some { σ := MD3M, s := { c := c, stack := #[initF c folds] }, step := md3Step }
      | none => none
    | _, _, _ => none
  | _ => none

end MV.Driver
