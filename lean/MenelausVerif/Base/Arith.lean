/-
  Numeric carriers.

  Models are written once over the *standard notation classes*
  (`Add Sub Mul Div Neg LT LE NatCast BEq`, decidable comparisons) plus the two
  small classes below for `sqrt`/`log`/`exp`.  No law is assumed.  They are
  used at
    * `Float`  — executed by the driver in the correspondence check,
    * any ordered field (`ℚ`, `ℝ`, …) — where the algebraic theorems live.
  Because the operations are taken from the ordinary classes there is no
  diamond: at a field the model's `+` *is* the field's `+`.
-/
namespace MV

class HasSqrt (α : Type) where
  sqrt : α → α

class HasLogExp (α : Type) where
  log : α → α
  exp : α → α

export HasSqrt (sqrt)
export HasLogExp (log exp)

instance : NatCast Float := ⟨Float.ofNat⟩
instance : IntCast Float := ⟨Float.ofInt⟩
instance : HasSqrt Float := ⟨Float.sqrt⟩
instance : HasLogExp Float := ⟨Float.log, Float.exp⟩

/-- absolute value from order and negation (what `abs()` / `np.abs` do on non-NaN data) -/
def absOf {α : Type} [Neg α] [LT α] [DecidableLT α] [NatCast α] (x : α) : α :=
  if x < ((0 : Nat) : α) then -x else x

/-- `max(a, b)` as Python computes it: `b if b > a else a` -/
def pyMax {α : Type} [LT α] [DecidableLT α] (a b : α) : α := if a < b then b else a
/-- `min(a, b)` as Python computes it: `b if b < a else a` -/
def pyMin {α : Type} [LT α] [DecidableLT α] (a b : α) : α := if b < a then b else a

end MV
