/-
  Shared vocabulary of every model: the three drift states and the
  `retraining_recs` pair.  Import-free (core Lean only) so that the driver
  executable can link it.
-/
namespace MV

/-- `drift_state` of a detector: Python `None`, `"warning"`, `"drift"`. -/
inductive Drift where
  | none | warning | drift
  deriving DecidableEq, Repr, Inhabited

namespace Drift
def toStr : Drift → String
  | .none => "N" | .warning => "W" | .drift => "D"

def ofStr? : String → Option Drift
  | "N" => some .none | "W" => some .warning | "D" => some .drift | _ => Option.none
end Drift

/-- `retraining_recs`: `[None, None]` or `[a, b]` (each side may be set separately). -/
abbrev Recs := Option Nat × Option Nat

def Recs.empty : Recs := (Option.none, Option.none)

def optNatStr : Option Nat → String
  | Option.none => "_"
  | some n => toString n

def Recs.toStr (r : Recs) : String := optNatStr r.1 ++ "," ++ optNatStr r.2

end MV
