/-
  Model of menelaus/ensemble/election.py — the four `__call__`s, loops with early
  return written as structural recursion.  Import-free.
-/
import MenelausVerif.Base.Drift
namespace MV.Election

/-- `SimpleMajorityElection.__call__` -/
def simpleMajority (vs : List Drift) : Drift :=
  if vs.count .drift > vs.length / 2 then .drift else .none

/-- loop of `MinimumApprovalElection.__call__`; `n` = `num_approvals` so far -/
def minApprovalLoop (a : Nat) : Nat → List Drift → Drift
  | _, [] => .none
  | n, d :: ds =>
    let n' := if d = .drift then n + 1 else n
    if n' ≥ a then .drift else minApprovalLoop a n' ds

def minApproval (a : Nat) (vs : List Drift) : Drift := minApprovalLoop a 0 vs

/-- loop of `OrderedApprovalElection.__call__` -/
def orderedLoop (a c : Nat) : Nat → Nat → List Drift → Drift
  | _, _, [] => .none
  | na, nc, d :: ds =>
    if d = .drift then
      let na' := if na < a then na + 1 else na
      let nc' := if na < a then nc else nc + 1
      if na' ≥ a ∧ nc' ≥ c then .drift else orderedLoop a c na' nc' ds
    else orderedLoop a c na nc ds

def ordered (a c : Nat) (vs : List Drift) : Drift := orderedLoop a c 0 0 vs

/-- what one member contributes in one `ConfirmedElection.__call__` -/
inductive Ballot where
  | voter | warn | nothing
  deriving DecidableEq, Repr

/-- the body of the `for i, state in enumerate(states)` loop for one member -/
def memberStep (c : Nat) (st : Drift) : Ballot × Nat :=
  if st = .drift ∧ c = 0 then (.voter, c + 1)
  else if st = .warning then (.warn, c)
  else if c ≠ 0 then (.voter, c + 1)
  else (.nothing, c)

/-- the trailing loop: `if count > wait_time: counters[i] = 0` -/
def expire (w : Nat) (c : Nat) : Nat := if c > w then 0 else c

structure Confirmed where
  sens : Nat
  wait : Nat
  ctrs : Option (List Nat) := Option.none

def Confirmed.call (e : Confirmed) (vs : List Drift) : Drift × Confirmed :=
  let ctrs := e.ctrs.getD (List.replicate vs.length 0)
  let bs := List.zipWith memberStep ctrs vs
  let numDrift := (bs.filter (fun b => b.1 = .voter)).length
  let numWarn := (bs.filter (fun b => b.1 = .warn)).length
  let ret :=
    if numDrift ≥ e.sens then Drift.drift
    else if numWarn + numDrift ≥ e.sens then Drift.warning
    else Drift.none
  (ret, { e with ctrs := some (bs.map (fun b => expire e.wait b.2)) })

end MV.Election
