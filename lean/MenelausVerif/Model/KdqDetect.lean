/-
  Model of menelaus/data_drift/kdq_tree.py (`KdqTreeDetector._evaluate_kdqtree`,
  `_inner_set_reference`, `_get_critical_kld`, `KdqTreeStreaming.update/reset`,
  `KdqTreeBatch.update/set_reference/reset`) around the partitioner model of
  `Model/KdqTree.lean`.  Carrier-polymorphic, import-free.

  * `np.random.choice(bin_indices, size=2*sample_size, p=ref_dist)` is an *input*: the
    harness records the index vectors the implementation drew (one per bootstrap sample)
    and hands them to the step in which the reference is (re)built.
  * `np.unique(..., return_counts=True)` + outer merge + `fillna(0)` + sort = the histogram
    of the drawn indices over all leaves (`hist`).
  * `np.quantile(xs, 1 - alpha, method="nearest")` = `sorted(xs)[np.around((n-1)*(1-alpha))]`
    (`np.around` rounds half to even; class `HasRint`).
  * the tree id `"test"` is 1, `"build"` is 0.
  * a step returns `none` when `build` runs out of fuel (Python: RecursionError).
-/
import MenelausVerif.Base.Drift
import MenelausVerif.Base.Arith
import MenelausVerif.Model.KdqTree
namespace MV.KdqDet
open MV MV.Kdq

/-- `np.around(x).astype(np.intp)` for `x ≥ 0` (round half to even) -/
class HasRint (α : Type) where
  rint : α → Nat

def rintFloat (x : Float) : Nat :=
  let f := x.floor
  let d := x - f
  let fi := f.toUInt64.toNat
  if d < 0.5 then fi else if d > 0.5 then fi + 1 else if fi % 2 == 0 then fi else fi + 1

instance : HasRint Float := ⟨rintFloat⟩

def testId : Nat := 1

section critical
variable {α : Type} [Inhabited α] [Add α] [Sub α] [Mul α] [Div α] [LT α] [DecidableLT α]
  [LE α] [DecidableLE α] [NatCast α] [BEq α] [HasLogExp α] [HasRint α]

/-- insertion into an ascending list -/
def insertAsc (x : α) : List α → List α
  | [] => [x]
  | y :: ys => if x < y then x :: y :: ys else y :: insertAsc x ys

/-- ascending sort (what `np.quantile` does before indexing) -/
def sortAsc (xs : List α) : List α := xs.foldr insertAsc []

/-- counts of the drawn leaf indices over all `k` leaves, in leaf order -/
def hist (k : Nat) (xs : List Nat) : List Nat := (List.range k).map (fun i => xs.count i)

/-- divergence between the corrected distributions of the two halves of one bootstrap draw -/
def bootKld (k s : Nat) (draw : List Nat) : α :=
  klCounts (hist k (draw.take s)) (hist k (draw.drop s))

/-- `np.quantile(xs, q, method="nearest")` -/
def quantileNearest (xs : List α) (q : α) : α :=
  (sortAsc xs).getD (HasRint.rint (((xs.length - 1 : Nat) : α) * q)) default

/-- `_get_critical_kld(ref_counts, sample_size)` with the bootstrap draws as input -/
def criticalKld (k s : Nat) (draws : List (List Nat)) (alpha : α) : α :=
  quantileNearest (draws.map (bootKld k s)) (((1 : Nat) : α) - alpha)

end critical

/-! ### streaming -/

structure SCfg (α : Type) where
  window : Nat
  persistence : α
  alpha : α
  part : Cfg α

structure SState (α : Type) where
  total : Nat
  since : Nat
  drift : Drift
  refData : List (List α)       -- `_ref_data`
  testSize : Nat                -- `_test_data_size`
  tree : Option (Tree α)        -- `_kdqtree`
  critical : Option α           -- `_critical_dist`
  testDist : Option α           -- `_test_dist`
  counter : Nat                 -- `_drift_counter`

/-- what an update did -/
inductive Ev where
  | building            -- reference window still filling
  | built               -- reference window complete: tree and critical value computed
  | waiting             -- test sample filed, fewer than `window_size` test samples so far
  | eval (exceeds : Bool)  -- divergence evaluated against the critical value
  deriving DecidableEq, Repr

section stream
variable {α : Type} [Inhabited α] [Add α] [Sub α] [Mul α] [Div α] [LT α] [DecidableLT α]
  [LE α] [DecidableLE α] [NatCast α] [BEq α] [HasLogExp α] [HasRint α] [HasTrunc α]

def sInit : SState α :=
  { total := 0, since := 0, drift := .none, refData := [], testSize := 0, tree := none,
    critical := none, testDist := none, counter := 0 }

/-- `KdqTreeStreaming.reset` -/
def sReset (s : SState α) : SState α :=
  { s with since := 0, drift := .none, refData := [], testSize := 0, tree := none,
           critical := none, testDist := none, counter := 0 }

/-- divergence of the test counts from the build counts over the leaves of the tree -/
def divergence (t : Tree α) : α := klCounts (leafCountsD t 0) (leafCountsD t testId)

/-- the persistence rule on an exceeding evaluation -/
def alarms (c : SCfg α) (cnt : Nat) : Bool := decide (c.persistence * (c.window : α) < (cnt : α))

/-- `_evaluate_kdqtree(ary, "stream")` after the bookkeeping of `update` -/
def sEvaluate (c : SCfg α) (s : SState α) (x : List α) (draws : List (List Nat)) : Option (SState α × Ev) :=
  match s.tree with
  | none =>
    let ref := s.refData ++ [x]
    if ref.length = c.window then
      -- `_inner_set_reference(self._ref_data, "stream")`: `self.reset()` first (the subclass' reset)
      match build c.part x.length ref with
      | none => none
      | some t =>
        let s := sReset s
        some ({ s with tree := some t,
                       critical := some (criticalKld (leafCountsD t 0).length c.window draws c.alpha),
                       refData := [] }, .built)
    else some ({ s with refData := ref }, .building)
  | some t =>
    let t := fill testId false [x] t
    let size := s.testSize + 1
    let s := { s with tree := some t, testSize := size }
    if c.window ≤ size then
      let d := divergence t
      let s := { s with testDist := some d }
      let exceeds := decide (s.critical.getD default < d)
      if exceeds then
        let cnt := s.counter + 1
        some ({ s with counter := cnt, drift := if alarms c cnt then .drift else s.drift }, .eval true)
      else some ({ s with counter := 0 }, .eval false)
    else some (s, .waiting)

/-- `KdqTreeStreaming.update(X)` for one validated row -/
def sStep (c : SCfg α) (s : SState α) (x : List α) (draws : List (List Nat)) : Option (SState α × Ev) :=
  let s := if s.drift = .drift then sReset s else s
  sEvaluate c { s with total := s.total + 1, since := s.since + 1 } x draws

end stream

/-! ### batch -/

structure BCfg (α : Type) where
  alpha : α
  part : Cfg α

structure BState (α : Type) where
  total : Nat
  since : Nat
  drift : Drift
  tree : Option (Tree α)
  critical : Option α
  testDist : Option α
  refData : Option (List (List α))    -- `ref_data`: the batch that becomes the next reference

section batch
variable {α : Type} [Inhabited α] [Add α] [Sub α] [Mul α] [Div α] [LT α] [DecidableLT α]
  [LE α] [DecidableLE α] [NatCast α] [BEq α] [HasLogExp α] [HasRint α] [HasTrunc α]

def bInit : BState α :=
  { total := 0, since := 0, drift := .none, tree := none, critical := none, testDist := none, refData := none }

/-- `_inner_set_reference(ary, "batch")` (= public `set_reference` after validation):
    `self.reset()`, build, critical value with `sample_size = sum(ref_counts)` -/
def bSetRef (c : BCfg α) (s : BState α) (m : Nat) (data : List (List α)) (draws : List (List Nat)) : Option (BState α) :=
  match build c.part m data with
  | none => none
  | some t =>
    let counts := leafCountsD t 0
    some { s with since := 0, drift := .none, tree := some t, testDist := none,
                  critical := some (criticalKld counts.length counts.sum draws c.alpha) }

/-- `KdqTreeBatch.update(X)`; the returned flag says whether the batch exceeded the critical value
    (`none` when the batch only became the reference) -/
def bStep (c : BCfg α) (s : BState α) (m : Nat) (X : List (List α)) (draws : List (List Nat)) :
    Option (BState α × Option Bool) :=
  let s? := if s.drift = .drift then bSetRef c s m (s.refData.getD []) draws else some s
  match s? with
  | none => none
  | some s =>
    let s := { s with total := s.total + 1, since := s.since + 1 }
    match s.tree with
    | none => (bSetRef c s m X draws).map (fun s => (s, none))
    | some t =>
      let t := fill testId true X t
      let d := divergence t
      let exceeds := decide (s.critical.getD default < d)
      some ({ s with tree := some t, testDist := some d,
                     drift := if exceeds then .drift else s.drift,
                     refData := if exceeds then some X else s.refData }, some exceeds)

end batch

end MV.KdqDet
