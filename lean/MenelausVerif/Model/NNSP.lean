/-
  Model of menelaus/partitioners/NNSpacePartitioner.py (`build`,
  `compute_nnps_distance`) and menelaus/data_drift/nndvi.py (`update`,
  `set_reference`, `reset`, `_compute_drift_threshold`).
  Carrier-polymorphic, import-free.

  External calls that are inputs of the model (DESIGN §3.3):
    * `NearestNeighbors(k).fit(D).kneighbors_graph(D)` — the adjacency matrix is an
      input, validated by the executable predicate `isKnnRelation D k adj`;
    * `np.random.permutation(v_ref)` — the index permutations drawn are inputs
      (`permute v π`, validated by `isPerm`);
    * `scipy.stats.norm.ppf(1 - alpha)` — the critical value `z` is an input.
  Modelled here: `np.unique(axis=0, return_inverse=True)` (lexicographic sort,
  adjacent de-duplication, inverse index), the split of the inverse index at
  `len(sample1)`, the one-hot vectors, the weight normalisation (lcm of the row
  sums / row sum), `np.dot(v, M)`, the distance sum, `norm.fit` (mean, population
  standard deviation) and the threshold `norm.ppf(1 - alpha) * std + mu` (defined also
  when all sampled distances coincide, `std = 0`, where it equals `mu`).

  Inputs the real code rejects (modelled as `none` / `Out.rejected`): `k = 0` or
  `k >` number of distinct pooled points (sklearn raises `ValueError`), `update`
  before `set_reference` (`np.vstack((None, X))` raises).  Not modelled: samples of
  different widths, empty samples, NaN coordinates, `-0.0` vs `0.0`.
-/
import MenelausVerif.Base.Drift
import MenelausVerif.Base.Arith
namespace MV.NNSP

abbrev Row (α : Type) := List α

/-! ### `np.unique(data, axis=0, return_inverse=True)` -/
section Order
variable {α : Type} [LT α] [DecidableLT α]

/-- lexicographic comparison of rows (numpy sorts the rows as records, field by field) -/
def rowLt : Row α → Row α → Bool
  | [], [] => false
  | [], _ :: _ => true
  | _ :: _, [] => false
  | a :: as, b :: bs => if a < b then true else if b < a then false else rowLt as bs

/-- `==` on rows, derived from the order (numpy: `ar[1:] != ar[:-1]` on the sorted records) -/
def rowEq (a b : Row α) : Bool := !rowLt a b && !rowLt b a

def insertRow (r : Row α) : List (Row α) → List (Row α)
  | [] => [r]
  | x :: xs => if rowLt x r then x :: insertRow r xs else r :: x :: xs

def sortRows (l : List (Row α)) : List (Row α) := l.foldr insertRow []

/-- keep an element iff it differs from its predecessor (`mask[i] = ar[i] != ar[i-1]`) -/
def dedupFrom (prev : Row α) : List (Row α) → List (Row α)
  | [] => []
  | y :: ys => if rowEq prev y then dedupFrom y ys else y :: dedupFrom y ys

def dedupAdj : List (Row α) → List (Row α)
  | [] => []
  | x :: xs => x :: dedupFrom x xs

/-- `D`: the sorted de-duplicated rows -/
def unique (l : List (Row α)) : List (Row α) := dedupAdj (sortRows l)

/-- `inverted_indices[r]`: position of row `r` in `D` -/
def indexIn (pool : List (Row α)) (r : Row α) : Nat := pool.findIdx (fun p => rowEq p r)

/-- `onehot = zeros(n); onehot[idx] = 1` -/
def onehot (n : Nat) (idx : List Nat) : List Bool := (List.range n).map (fun i => idx.contains i)

structure Parts (α : Type) where
  pool : List (Row α)
  v1 : List Bool
  v2 : List Bool

/-- lines 49–61 of `build` -/
def parts (s1 s2 : List (Row α)) : Parts α :=
  let data := s1 ++ s2
  let pool := unique data
  let inv := data.map (indexIn pool)
  let i1 := inv.take s1.length
  let i2 := inv.drop s1.length
  { pool := pool, v1 := onehot pool.length i1, v2 := onehot pool.length i2 }

end Order

/-! ### the k-nearest-neighbour relation (validated input) -/
section Knn
variable {α : Type} [LT α] [DecidableLT α] [Add α] [Sub α] [Mul α] [NatCast α]

def sumL (l : List α) : α := l.foldl (· + ·) ((0 : Nat) : α)

/-- squared Euclidean distance -/
def sqDist (a b : Row α) : α := sumL (List.zipWith (fun x y => (x - y) * (x - y)) a b)

/-- row `i` of the adjacency matrix is a k-NN row of point `p = D[i]`: right width, exactly
    `k` ones, `p` itself included, no excluded point strictly closer than an included one -/
def rowOk (k : Nat) (D : List (Row α)) (p : Row α) (i : Nat) (arow : List Bool) : Bool :=
  let z := List.zip arow (D.map (sqDist p))
  let incl := (z.filter (fun x => x.1)).map (·.2)
  let excl := (z.filter (fun x => !x.1)).map (·.2)
  arow.length == D.length && arow.count true == k && arow.getD i false &&
    incl.all (fun dj => excl.all (fun dl => !(decide (dl < dj))))

def isKnnRelation (D : List (Row α)) (k : Nat) (adj : List (List Bool)) : Bool :=
  adj.length == D.length &&
    ((List.zip D adj).zipIdx).all (fun x => rowOk k D x.1.1 x.2 x.1.2)

end Knn

/-! ### weight normalisation, lines 69–74 of `build` -/

def rowSums (adj : List (List Bool)) : List Nat := adj.map (·.count true)

/-- `np.lcm.reduce(weight_array)` -/
def lcmAll (ws : List Nat) : Nat := ws.foldl Nat.lcm 1

/-- `matmul(diag(Q / w), adjacency)`; the entries are integers (`w ∣ Q`) -/
def nnpsMatrix (adj : List (List Bool)) : List (List Nat) :=
  let ws := rowSums adj
  let q := lcmAll ws
  (List.zip ws adj).map (fun x => x.2.map (fun b => q / x.1 * (if b then 1 else 0)))

/-! ### `compute_nnps_distance` -/

def ncols (M : List (List Nat)) : Nat := (M.headD []).length

/-- `np.dot(v, M)` for a 0/1 vector `v`: the sum of the selected rows -/
def vecMat (v : List Bool) (M : List (List Nat)) (n : Nat) : List Nat :=
  (List.zip v M).foldl (fun acc x => if x.1 then List.zipWith (· + ·) acc x.2 else acc)
    (List.replicate n 0)

section Dist
variable {α : Type} [LT α] [DecidableLT α] [Add α] [Sub α] [Div α] [Neg α] [NatCast α]

/-- `|a - b| / (a + b)` on the (integer-valued) column sums -/
def term (a b : Nat) : α := absOf ((a : α) - (b : α)) / ((a : α) + (b : α))

def nnpsDistance (M : List (List Nat)) (v1 v2 : List Bool) : α :=
  let m1 := vecMat v1 M (ncols M)
  let m2 := vecMat v2 M (ncols M)
  (List.zipWith term m1 m2).foldl (· + ·) ((0 : Nat) : α) / ((v1.length : Nat) : α)

end Dist

structure Built (α : Type) where
  pool : List (Row α)
  v1 : List Bool
  v2 : List Bool
  adj : List (List Bool)
  knnOk : Bool
  nnps : List (List Nat)

section Build
variable {α : Type} [LT α] [DecidableLT α] [Add α] [Sub α] [Mul α] [NatCast α]

/-- `NNSpacePartitioner(k).build(s1, s2)`; `none` = sklearn rejects `k` -/
def build (k : Nat) (s1 s2 : List (Row α)) (adj : List (List Bool)) : Option (Built α) :=
  let p := parts s1 s2
  if k = 0 ∨ p.pool.length < k then none
  else some { pool := p.pool, v1 := p.v1, v2 := p.v2, adj := adj,
              knnOk := isKnnRelation p.pool k adj, nnps := nnpsMatrix adj }

end Build

end MV.NNSP

namespace MV.NNDVI
open MV.NNSP

structure Cfg (α : Type) where
  k : Nat
  samplingTimes : Nat
  /-- `norm.ppf(1 - alpha)` -/
  z : α

structure State (α : Type) where
  total : Nat
  since : Nat
  drift : Drift
  reference : Option (List (Row α))

inductive Out (α : Type) where
  | rejected
  | ok (dist : α) (theta : α) (knnOk : Bool)

/-- `v_ref[π]`: what `np.random.permutation(v_ref)` returns when it draws the index permutation `π` -/
def permute (v : List Bool) (π : List Nat) : List Bool := π.map (fun i => v.getD i false)

def isPerm (n : Nat) (π : List Nat) : Bool := π.length == n && (List.range n).all (fun i => π.contains i)

def init {α : Type} : State α := { total := 0, since := 0, drift := .none, reference := none }

/-- `BatchDetector.reset` -/
def reset {α : Type} (s : State α) : State α := { s with since := 0, drift := .none }

/-- `NNDVI.set_reference` (counters and drift state untouched) -/
def setReference {α : Type} (s : State α) (X : List (Row α)) : State α := { s with reference := some X }

section Thr
variable {α : Type} [LT α] [DecidableLT α] [Add α] [Sub α] [Mul α] [Div α] [Neg α] [NatCast α] [HasSqrt α]

/-- one random re-assignment: `v1' = permutation(v_ref)`, `v2' = 1 - v1'` -/
def shuffleDist (M : List (List Nat)) (vref : List Bool) (π : List Nat) : α :=
  let s := permute vref π
  nnpsDistance M s (s.map (!·))

/-- `norm.fit`: `loc = data.mean()` -/
def mean (ds : List α) : α := sumL ds / ((ds.length : Nat) : α)

/-- `norm.fit`: `scale = sqrt(((data - loc)**2).mean())` (population standard deviation) -/
def stdPop (ds : List α) : α :=
  let m := mean ds
  sqrt (sumL (ds.map (fun d => (d - m) * (d - m))) / ((ds.length : Nat) : α))

/-- `drift_threshold = norm.ppf(1 - alpha) * std + mu` (in this operation order) -/
def threshold (z : α) (ds : List α) : α := z * stdPop ds + mean ds

/-- `d_act > theta_drift` -/
def exceeds (d θ : α) : Bool := decide (θ < d)

/-- `NNDVI.update(X)`; `adj` = the k-NN graph of the pooled points, `perms` = the
    `sampling_times` index permutations drawn -/
def step (c : Cfg α) (s : State α) (X : List (Row α)) (adj : List (List Bool)) (perms : List (List Nat)) :
    State α × Out α :=
  let s0 := if s.drift = .drift then reset s else s
  let s1 := { s0 with total := s0.total + 1, since := s0.since + 1 }
  match s1.reference with
  | none => (s1, .rejected)
  | some ref =>
    match build c.k ref X adj with
    | none => (s1, .rejected)
    | some b =>
      let d : α := nnpsDistance b.nnps b.v1 b.v2
      let θ := threshold c.z (perms.map (shuffleDist b.nnps b.v1))
      if exceeds d θ then
        ({ s1 with drift := .drift, reference := some X }, .ok d θ b.knnOk)
      else (s1, .ok d θ b.knnOk)

/-- the draws handed to `step` are well-formed: `sampling_times` permutations of the pool indices -/
def drawsOk (c : Cfg α) (s : State α) (X : List (Row α)) (perms : List (List Nat)) : Bool :=
  match s.reference with
  | none => true
  | some ref =>
    let n := (parts ref X).pool.length
    perms.length == c.samplingTimes && perms.all (isPerm n)

end Thr

end MV.NNDVI
