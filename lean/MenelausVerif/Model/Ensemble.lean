/-
  Model of menelaus/ensemble/ensemble.py — `Ensemble`, `StreamingEnsemble`,
  `BatchEnsemble` — over ABSTRACT member detectors.  Import-free.

  A member is any machine with a state type, `update` / `set_reference` / `reset`
  transitions and the two read-outs an ensemble looks at (`drift_state`, and
  `retraining_recs` when the object has that attribute).  `update` and
  `set_reference` may *raise* (validation): they return the state the member is
  left in and whether the call returned normally.  Members are held in a list =
  the insertion order of the `detectors` dict; the ensemble's member store is the
  heterogeneous tuple `States ms`.

  What the code does (ensemble.py as it is in /repo):

    Streaming/BatchEnsemble.update(X, y_true, y_pred):
        Ensemble.update:   for key in detectors:                   -- `loopAll`: stops at the first member that raises
                               detectors[key].update(X=selector[key](X), y_true, y_pred)
                           self.drift_state = self.election(list(detectors.values()))
        <Base>Detector.update:  total += 1 ; since_reset += 1       -- no validation of its own, so nothing is
                                                                     -- rejected before the members have been touched;
                                                                     -- no automatic restart on drift
    reset():               for key in detectors: detectors[key].reset()
                           since_reset = 0 ; drift_state = None              -- election object untouched
    BatchEnsemble.set_reference(X, y_true, y_pred):
                           for key in detectors: detectors[key].set_reference(X=selector[key](X), …)
                           (nothing else: no counter, no drift_state, no election)

  When member k raises inside `update`, the exception propagates: members before k
  have been updated, member k is in whatever state its own failed call leaves it,
  members after k were not called, the election is not consulted and the
  ensemble's counters / drift_state do not move.  (A selector that raises on the
  input is the same situation with member k left untouched: in the model that is a
  `step` returning `(s, false)`.)
-/
import MenelausVerif.Base.Drift
import MenelausVerif.Model.Election
namespace MV.Ensemble
open MV MV.Election

/-! ### the election object held by the ensemble -/

inductive Elec where
  | majority
  | minApproval (a : Nat)
  | ordered (a c : Nat)
  | confirmed (e : Confirmed)

/-- `self.election(det_list)`: the verdict and the election object afterwards
    (only `ConfirmedElection` has state). -/
def Elec.call : Elec → List Drift → Drift × Elec
  | .majority, vs => (simpleMajority vs, .majority)
  | .minApproval a, vs => (Election.minApproval a vs, .minApproval a)
  | .ordered a c, vs => (Election.ordered a c vs, .ordered a c)
  | .confirmed e, vs => ((e.call vs).1, .confirmed (e.call vs).2)

/-! ### abstract members -/

/-- A member detector of an ensemble whose `update` receives `X` and the labels `Y`
    (`y_true`, `y_pred`, passed to every member unchanged).  `sel` is the member's
    column selector (`fun x => x` when the user gave none), `Xi` what it returns.
    `step` / `setRef` return (state afterwards, returned normally?). -/
structure Member (X Y : Type) where
  name : String
  σ : Type
  Xi : Type
  sel : X → Xi
  step : σ → Xi → Y → σ × Bool
  setRef : σ → Xi → Y → σ × Bool
  reset : σ → σ
  drift : σ → Drift
  /-- `none` = the object has no attribute `retraining_recs` -/
  recs : σ → Option Recs

/-- operations on a detector / an ensemble -/
inductive Op (X Y : Type) where
  | update (x : X) (y : Y)
  | reset
  | setRef (x : X) (y : Y)

def Op.map {X X' Y : Type} (f : X → X') : Op X Y → Op X' Y
  | .update x y => .update (f x) y
  | .reset => .reset
  | .setRef x y => .setRef (f x) y

def Op.isUpdate {X Y : Type} : Op X Y → Bool
  | .update _ _ => true
  | _ => false

def Op.isReset {X Y : Type} : Op X Y → Bool
  | .reset => true
  | _ => false

variable {X Y : Type}

/-- one call on a member that stands alone (input already selected):
    (state afterwards, returned normally?) -/
def Member.call (m : Member X Y) (s : m.σ) : Op m.Xi Y → m.σ × Bool
  | .update x y => m.step s x y
  | .reset => (m.reset s, true)
  | .setRef x y => m.setRef s x y

def Member.apply (m : Member X Y) (s : m.σ) (op : Op m.Xi Y) : m.σ := (m.call s op).1

/-- the member run on its own -/
def Member.alone (m : Member X Y) (s : m.σ) (ops : List (Op m.Xi Y)) : m.σ :=
  ops.foldl m.apply s

/-! ### the ensemble's member store and the loop over it -/

/-- the values of the `detectors` dict, in insertion order -/
def States : List (Member X Y) → Type
  | [] => Unit
  | m :: ms => m.σ × States ms

def States.get : (ms : List (Member X Y)) → States ms → (i : Fin ms.length) → (ms.get i).σ
  | _ :: _, st, ⟨0, _⟩ => st.1
  | _ :: ms, st, ⟨i + 1, h⟩ => States.get ms st.2 ⟨i, Nat.lt_of_succ_lt_succ h⟩

/-- what an ensemble call does to one member: the member's own call on the selected input -/
def callOf (op : Op X Y) (m : Member X Y) (s : m.σ) : m.σ × Bool := m.call s (op.map m.sel)

/-- `for det_key in self.detectors: self.detectors[det_key].<call>(…)` — in insertion order,
    abandoned at the first member whose call raises.  Returns the member store and whether
    the loop ran to completion. -/
def loopAll (f : (m : Member X Y) → m.σ → m.σ × Bool) : (ms : List (Member X Y)) → States ms → States ms × Bool
  | [], _ => ((), true)
  | m :: ms, st =>
    let r := f m st.1
    if r.2 then
      let rest := loopAll f ms st.2
      ((r.1, rest.1), rest.2)
    else ((r.1, st.2), false)

/-- `[d.drift_state for d in self.detectors.values()]` — all an election reads -/
def votes : (ms : List (Member X Y)) → States ms → List Drift
  | [], _ => []
  | m :: ms, st => m.drift st.1 :: votes ms st.2

/-- property `drift_states` (dict as association list in insertion order) -/
def driftStates : (ms : List (Member X Y)) → States ms → List (String × Drift)
  | [], _ => []
  | m :: ms, st => (m.name, m.drift st.1) :: driftStates ms st.2

/-- property `retraining_recs`: members without the attribute are skipped -/
def retrainingRecs : (ms : List (Member X Y)) → States ms → List (String × Recs)
  | [], _ => []
  | m :: ms, st =>
    match m.recs st.1 with
    | some r => (m.name, r) :: retrainingRecs ms st.2
    | Option.none => retrainingRecs ms st.2

/-! ### the ensemble -/

structure State (ms : List (Member X Y)) where
  mem : States ms
  elec : Elec
  drift : Drift
  total : Nat
  since : Nat

/-- a freshly constructed ensemble around members in states `mem` -/
def init (ms : List (Member X Y)) (mem : States ms) (e : Elec) : State ms :=
  { mem := mem, elec := e, drift := .none, total := 0, since := 0 }

variable {ms : List (Member X Y)}

/-- what the ensemble does after its member loop ran to completion -/
def State.finish (s : State ms) (mem' : States ms) : Op X Y → State ms
  | .update _ _ =>
    let r := s.elec.call (votes ms mem')                    -- self.drift_state = self.election(det_list)
    { mem := mem', elec := r.2, drift := r.1,
      total := s.total + 1, since := s.since + 1 }          -- <Base>Detector.update
  | .reset => { s with mem := mem', since := 0, drift := .none }   -- <Base>Detector.reset
  | .setRef _ _ => { s with mem := mem' }

/-- one call on the ensemble; when a member raises, only the member store has changed -/
def State.apply (s : State ms) (op : Op X Y) : State ms :=
  let r := loopAll (callOf op) ms s.mem
  if r.2 then s.finish r.1 op else { s with mem := r.1 }

/-- did the call return normally? -/
def State.completes (s : State ms) (op : Op X Y) : Bool := (loopAll (callOf op) ms s.mem).2

def run (s : State ms) (ops : List (Op X Y)) : State ms := ops.foldl State.apply s

end MV.Ensemble
