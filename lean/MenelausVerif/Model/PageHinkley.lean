/-
  Model of menelaus/change_detection/page_hinkley.py (`PageHinkley.update`, `reset`).
  Carrier-polymorphic, import-free.
-/
import MenelausVerif.Base.Drift
import MenelausVerif.Base.Arith
namespace MV.PH

inductive Dir where
  | positive | negative
  deriving DecidableEq, Repr

structure Cfg (α : Type) where
  delta : α
  threshold : α
  burnIn : Nat
  dir : Dir

structure State (α : Type) where
  total : Nat
  since : Nat
  drift : Drift
  mean : α
  sum : α
  mn : α
  mx : α

/-- what `to_dataframe()` appends for this update -/
structure Row (α : Type) where
  x : α
  sum : α
  diff : α
  theta : α
  check : Bool
  mx : α
  mn : α
  mean : α

variable {α : Type} [Add α] [Sub α] [Mul α] [Div α] [LT α] [DecidableLT α] [NatCast α]

def zero : α := ((0 : Nat) : α)

def init : State α :=
  { total := 0, since := 0, drift := .none, mean := zero, sum := zero, mn := zero, mx := zero }

/-- `PageHinkley.reset` (the total counter survives) -/
def reset (s : State α) : State α :=
  { s with since := 0, drift := .none, mean := zero, sum := zero, mn := zero, mx := zero }

/-- the statistics part of `update`, after the optional reset -/
def core (c : Cfg α) (s : State α) (x : α) : State α × Row α :=
  let since := s.since + 1
  let mean := s.mean + (x - s.mean) / (since : α)
  let sum := s.sum + x - mean - c.delta
  let theta := c.threshold * mean
  let mn := if sum < s.mn then sum else s.mn
  let mx := if s.mx < sum then sum else s.mx
  let diff := match c.dir with
    | .positive => sum - mn
    | .negative => mx - sum
  let check := decide (theta < diff)
  let st := if check ∧ since > c.burnIn then Drift.drift else s.drift
  ({ total := s.total + 1, since := since, drift := st, mean := mean, sum := sum, mn := mn, mx := mx },
   { x := x, sum := sum, diff := diff, theta := theta, check := check, mx := mx, mn := mn, mean := mean })

/-- `PageHinkley.update(X)` -/
def step (c : Cfg α) (s : State α) (x : α) : State α × Row α :=
  core c (if s.drift = .drift then reset s else s) x

def run (c : Cfg α) (xs : List α) : State α := xs.foldl (fun s x => (step c s x).1) init

end MV.PH
