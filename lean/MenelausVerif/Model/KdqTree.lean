/-
  Model of menelaus/partitioners/KDQTreePartitioner.py
  (`KDQTreePartitioner.build / fill / reset / leaf_counts / kl_distance /
  _distn_from_counts / to_plotly_dataframe / _calculate_kss`, `KDQTreeNode.build /
  fill / reset / as_flattened_array`).  Carrier-polymorphic, import-free.

  Conventions
  * a data set is a `List (List α)` (rows); `m` (number of columns) is passed
    explicitly, as numpy knows it even for zero rows;
  * tree ids are natural numbers, `0` is Python's `"build"`;
  * the per-id dictionary `num_samples_in_compared_subtrees` is an association
    list (`Counts`): presence of a key matters (`fill` overwrites when the key is
    absent, `as_flattened_array` skips a subtree whose root lacks `tree_id1`);
  * Python `None` for a (sub)tree is the constructor `nil`: `KDQTreeNode.build`
    returns `None` for zero rows, so a *child* can be `None` (in exact arithmetic
    this never happens, see `Props/C08.lean`; with floats the midpoint
    `min + ptp/2` can round up to the maximum and the upper half is empty);
  * `build` is not structurally recursive in Python (it recurses on the two
    filtered halves); the model uses fuel and returns `none` when it runs out,
    which is what a Python `RecursionError` corresponds to.
-/
import MenelausVerif.Base.Arith
namespace MV.Kdq

/-- Python `int(x)` for a float: truncation toward zero -/
class HasTrunc (α : Type) where
  trunc : α → α

instance : HasTrunc Float := ⟨fun x => if x < 0 then x.ceil else x.floor⟩

/-! ### per-id counts (a Python dict with insertion semantics) -/

abbrev Counts := List (Nat × Nat)

def cget : Counts → Nat → Option Nat
  | [], _ => none
  | (k, v) :: cs, i => if k = i then some v else cget cs i

def cset : Counts → Nat → Nat → Counts
  | [], i, v => [(i, v)]
  | (k, w) :: cs, i, v => if k = i then (k, v) :: cs else (k, w) :: cset cs i v

/-- the dictionary update of `KDQTreeNode.fill`:
    `if tree_id not in d.keys() or reset: d[tree_id] = n else: d[tree_id] += n` -/
def cbump (c : Counts) (i n : Nat) (reset : Bool) : Counts :=
  match cget c i with
  | some old => if reset then cset c i n else cset c i (old + n)
  | none => cset c i n

/-! ### the tree -/

inductive Tree (α : Type) where
  | nil : Tree α
  | leaf (cnt : Counts) : Tree α
  | node (axis : Nat) (mid : α) (cnt : Counts) (l r : Tree α) : Tree α
  deriving Repr, DecidableEq

namespace Tree
variable {α : Type}

/-- count stored at the root of a subtree for `id` (0 for `None` / missing key) -/
def rootCount : Tree α → Nat → Nat
  | nil, _ => 0
  | leaf c, i => (cget c i).getD 0
  | node _ _ c _ _, i => (cget c i).getD 0

/-- `KDQTreePartitioner.leaves`: dictionaries of the leaves, left to right -/
def leaves : Tree α → List Counts
  | nil => []
  | leaf c => [c]
  | node _ _ _ l r => l.leaves ++ r.leaves

def numLeaves (t : Tree α) : Nat := t.leaves.length

/-- no `None` child anywhere below the root (the root itself may be `nil` = no tree) -/
def noNilBelow : Tree α → Bool
  | nil => false
  | leaf _ => true
  | node _ _ _ l r => l.noNilBelow && r.noNilBelow

/-- number of node objects -/
def numNodes : Tree α → Nat
  | nil => 0
  | leaf _ => 1
  | node _ _ _ l r => 1 + l.numNodes + r.numNodes

end Tree

/-! ### build -/

section build
variable {α : Type} [Inhabited α] [Add α] [Sub α] [Mul α] [Div α] [LT α] [DecidableLT α]
  [LE α] [DecidableLE α] [NatCast α] [BEq α]

/-- `data[:, axis]` -/
def col (data : List (List α)) (axis : Nat) : List α := data.map (fun r => r.getD axis default)

/-- `np.min` (non-NaN data) -/
def minOf : List α → α
  | [] => default
  | x :: xs => xs.foldl (fun a b => if b < a then b else a) x

/-- `np.max` (non-NaN data) -/
def maxOf : List α → α
  | [] => default
  | x :: xs => xs.foldl (fun a b => if a < b then b else a) x

/-- `np.ptp` -/
def ptp (xs : List α) : α := maxOf xs - minOf xs

def two : α := ((2 : Nat) : α)

/-- `min_value_at_axis + np.ptp(data[:, axis]) / 2` -/
def midpoint (data : List (List α)) (axis : Nat) : α :=
  minOf (col data axis) + ptp (col data axis) / two

/-- `data[:, axis] > mid` for one row -/
def goesUp (axis : Nat) (mid : α) (r : List α) : Bool := decide (mid < r.getD axis default)
/-- `data[:, axis] <= mid` for one row -/
def goesDown (axis : Nat) (mid : α) (r : List α) : Bool := decide (r.getD axis default ≤ mid)

/-- `np.unique(data).size`: number of distinct scalar values in the whole array -/
def uniqueCount (xs : List α) : Nat :=
  (xs.foldl (fun seen x => if seen.any (· == x) then seen else x :: seen) []).length

/-- the stop rule of `KDQTreeNode.build` (Python `or`, evaluated left to right) -/
def stops (ub : Nat) (mins : List α) (data : List (List α)) (axis : Nat) : Bool :=
  decide (data.length ≤ ub) ||
  decide (uniqueCount data.flatten ≤ ub) ||
  decide (midpoint data axis - minOf (col data axis) ≤ mins.getD axis default)

/-- `KDQTreeNode.build` with fuel; `none` = out of fuel -/
def buildAux (ub : Nat) (mins : List α) (m : Nat) : Nat → Nat → List (List α) → Option (Tree α)
  | 0, _, _ => none
  | fuel + 1, depth, data =>
    if data.length = 0 ∨ m = 0 then some .nil
    else
      let axis := depth % m
      if stops ub mins data axis then some (.leaf [(0, data.length)])
      else
        let mid := midpoint data axis
        let upper := data.filter (goesUp axis mid)
        let lower := data.filter (goesDown axis mid)
        match buildAux ub mins m fuel (depth + 1) lower, buildAux ub mins m fuel (depth + 1) upper with
        | some l, some r => some (.node axis mid [(0, upper.length + lower.length)] l r)
        | _, _ => none

structure Cfg (α : Type) where
  countUbound : Nat
  cplb : α

variable [HasTrunc α]

/-- `min_cutpoint_sizes = [int(cplb * np.ptp(data[:, axis])) for axis in range(m)]` -/
def minCutpointSizes (c : Cfg α) (m : Nat) (data : List (List α)) : List α :=
  (List.range m).map (fun axis => HasTrunc.trunc (c.cplb * ptp (col data axis)))

/-- fuel that suffices whenever the Python recursion terminates: along a path the
    row count never increases, it can strictly decrease at most `n` times, and if it
    stays the same over `m` consecutive levels the recursion has returned to the same
    (data, axis) and never ends. -/
def buildFuel (m n : Nat) : Nat := m * (n + 1) + 1

/-- `KDQTreePartitioner.build(data)` for a 2-d array with `m` columns and at least
    one row (numpy raises from `np.ptp` on zero rows).  `none` = `RecursionError`. -/
def build (c : Cfg α) (m : Nat) (data : List (List α)) : Option (Tree α) :=
  buildAux c.countUbound (minCutpointSizes c m data) m (buildFuel m data.length) 0 data

end build

/-! ### fill / reset -/

section fill
variable {α : Type} [Inhabited α] [LT α] [DecidableLT α] [LE α] [DecidableLE α]

/-- `KDQTreeNode.fill(data, node, _, tree_id, reset)` -/
def fill (id : Nat) (reset : Bool) : List (List α) → Tree α → Tree α
  | _, .nil => .nil
  | pts, .leaf c => .leaf (cbump c id pts.length reset)
  | pts, .node a mid c l r =>
    let upper := pts.filter (goesUp a mid)
    let lower := pts.filter (goesDown a mid)
    .node a mid (cbump c id (upper.length + lower.length) reset)
      (fill id reset lower l) (fill id reset upper r)

/-- `KDQTreeNode.reset(node, value, tree_id)` -/
def resetCounts (id value : Nat) : Tree α → Tree α
  | .nil => .nil
  | .leaf c => .leaf (cset c id value)
  | .node a mid c l r => .node a mid (cset c id value) (resetCounts id value l) (resetCounts id value r)

/-- index (left to right) of the leaf that the routing `> mid` → right, else left reaches -/
def descend (p : List α) : Tree α → Nat
  | .node a mid _ l r => if goesUp a mid p then l.numLeaves + descend p r else descend p l
  | _ => 0

/-- the point lies in the cell of leaf number `k`: it satisfies `x ≤ mid` at every left
    turn and `x > mid` at every right turn on the way to that leaf -/
def inCell (p : List α) : Tree α → Nat → Bool
  | .nil, _ => false
  | .leaf _, k => k == 0
  | .node a mid _ l r, k =>
    if k < l.numLeaves then goesDown a mid p && inCell p l k
    else goesUp a mid p && inCell p r (k - l.numLeaves)

end fill

/-! ### leaf counts, distributions, divergence -/

/-- `leaf_counts(tree_id)` with missing keys read as 0 (see `leafCounts?`) -/
def leafCountsD {α : Type} (t : Tree α) (id : Nat) : List Nat :=
  t.leaves.map (fun c => (cget c id).getD 0)

/-- every leaf dictionary has the key -/
def leavesHave {α : Type} (t : Tree α) (id : Nat) : Bool :=
  t.leaves.all (fun c => (cget c id).isSome)

inductive Res (β : Type) where
  | none          -- Python returns `None`
  | keyError      -- Python raises `KeyError`
  | ok (v : β)
  deriving Repr

/-- `KDQTreePartitioner.leaf_counts(tree_id)` -/
def leafCounts? {α : Type} (t : Tree α) (id : Nat) : Res (List Nat) :=
  if t.leaves.isEmpty then .none
  else if leavesHave t id then .ok (leafCountsD t id) else .keyError

section distn
variable {α : Type} [Add α] [Mul α] [Div α] [LT α] [DecidableLT α] [LE α] [DecidableLE α]
  [NatCast α] [BEq α] [HasLogExp α]

def half : α := ((1 : Nat) : α) / ((2 : Nat) : α)

def sumL (xs : List α) : α := xs.foldl (· + ·) ((0 : Nat) : α)

/-- `_distn_from_counts`: `(counts + 0.5) / (sum(counts) + len(counts) / 2)` -/
def distnFromCounts (counts : List Nat) : List α :=
  counts.map (fun (c : Nat) =>
    (((c : Nat) : α) + half) / (((counts.sum : Nat) : α) + ((counts.length : Nat) : α) / ((2 : Nat) : α)))

/-- `scipy.special.rel_entr` -/
def relEntr (x y : α) : α :=
  if ((0 : Nat) : α) < x ∧ ((0 : Nat) : α) < y then x * log (x / y)
  else if (x == ((0 : Nat) : α)) ∧ ((0 : Nat) : α) ≤ y then ((0 : Nat) : α)
  else ((1 : Nat) : α) / ((0 : Nat) : α)

/-- `scipy.stats.entropy(pk, qk)`: both arguments are normalised, then `sum(rel_entr)` -/
def entropy (pk qk : List α) : α :=
  let sp := sumL pk
  let sq := sumL qk
  sumL (List.zipWith relEntr (pk.map (· / sp)) (qk.map (· / sq)))

/-- divergence between the corrected distributions of two count vectors -/
def klCounts (c1 c2 : List Nat) : α := entropy (distnFromCounts c1) (distnFromCounts c2)

/-- `kl_distance(tree_id1, tree_id2)` -/
def klDistance? {β : Type} (t : Tree β) (id1 id2 : Nat) : Res α :=
  if t.leaves.isEmpty then .none
  else if leavesHave t id1 && leavesHave t id2 then .ok (klCounts (leafCountsD t id1) (leafCountsD t id2))
  else .keyError

/-- `_calculate_kss`: two-cell (node vs. rest) divergence -/
def kss (ref test refMax testMax : Nat) : α :=
  klCounts [ref, refMax - ref] [test, testMax - test]

end distn

/-! ### to_plotly_dataframe -/

/-- one dictionary appended by `as_flattened_array`; `idx` / `parent` are `id(node)`
    canonicalised to the position in the output list; `via` = (axis, went right) of
    the split leading to the node, which is what the `name` column encodes -/
structure Row where
  idx : Nat
  parent : Option Nat
  cell : Nat
  depth : Nat
  diff : Option Int
  via : Option (Nat × Bool)
  deriving Repr, DecidableEq

def mkRow (c : Counts) (n1 : Nat) (id2 : Option Nat) (idx : Nat) (parent : Option Nat) (depth : Nat)
    (via : Option (Nat × Bool)) : Row :=
  { idx := idx, parent := parent, cell := n1, depth := depth, via := via,
    diff := id2.map (fun j => match cget c j with
      | some n2 => (n2 : Int) - (n1 : Int)
      | none => 0 - (n1 : Int)) }

/-- `KDQTreeNode.as_flattened_array` (a subtree whose root lacks `tree_id1` is skipped) -/
def flattenAux {α : Type} (id1 : Nat) (id2 : Option Nat) :
    Tree α → Nat → Option Nat → Nat → Option (Nat × Bool) → List Row
  | .nil, _, _, _, _ => []
  | .leaf c, idx, parent, depth, via =>
    match cget c id1 with
    | none => []
    | some n1 => [mkRow c n1 id2 idx parent depth via]
  | .node a _ c l r, idx, parent, depth, via =>
    match cget c id1 with
    | none => []
    | some n1 =>
      let ls := flattenAux id1 id2 l (idx + 1) (some idx) (depth + 1) (some (a, false))
      let rs := flattenAux id1 id2 r (idx + 1 + ls.length) (some idx) (depth + 1) (some (a, true))
      mkRow c n1 id2 idx parent depth via :: (ls ++ rs)

def flatten {α : Type} (t : Tree α) (id1 : Nat) (id2 : Option Nat) : List Row :=
  flattenAux id1 id2 t 0 none 0 none

def maxNat (xs : List Nat) : Nat := xs.foldl Nat.max 0

/-- test count of a row: `count_diff + cell_count` -/
def Row.test (r : Row) : Nat := ((r.diff.getD 0) + (r.cell : Int)).toNat

/-- what pandas raises on the empty frame of a tree without rows -/
inductive PlotlyExc where
  | attributeError   -- `df.depth` with `max_depth` given
  | keyError         -- `df["cell_count"]` with `tree_id2` given
  deriving Repr, DecidableEq

/-- `max_depth` of `to_plotly_dataframe` is used only when truthy -/
def depthFilter (maxDepth : Option Nat) (rows : List Row) : List Row :=
  match maxDepth with
  | some d => if d = 0 then rows else rows.filter (fun r => r.depth ≤ d)
  | none => rows

/-- `to_plotly_dataframe(tree_id1, tree_id2, max_depth)`: rows (after the `max_depth`
    filter) and, when `tree_id2` is given, the `kss` column. -/
def plotly {α β : Type} [Add α] [Mul α] [Div α] [LT α] [DecidableLT α] [LE α] [DecidableLE α]
    [NatCast α] [BEq α] [HasLogExp α]
    (t : Tree β) (id1 : Nat) (id2 : Option Nat) (maxDepth : Option Nat) :
    Except PlotlyExc (List (Row × Option α)) :=
  let all := flatten t id1 id2
  if all.isEmpty ∧ (maxDepth.getD 0 ≠ 0) then .error .attributeError
  else
    let rows := depthFilter maxDepth all
    match id2 with
    | none => .ok (rows.map (fun r => (r, none)))
    | some _ =>
      if rows.isEmpty then .error .keyError
      else
        let refMax := maxNat (rows.map (·.cell))
        let testMax := maxNat (rows.map Row.test)
        .ok (rows.map (fun r => (r, some (kss r.cell r.test refMax testMax))))

end MV.Kdq
