/-
  Model of menelaus/concept_drift/eddm.py (`EDDM.update`, `reset`, `_increment_retraining_recs`).
  Carrier-polymorphic, import-free.  One `Bool` per sample: `true` = the prediction
  was wrong (`classifier_result = int(y_pred == y_true) = 0`).

  `_index_error_last` is only a temporary inside `update` (it is overwritten with
  `_index_error_curr` before it is read), so the model keeps `idxCurr` only.
-/
import MenelausVerif.Base.Drift
import MenelausVerif.Base.Arith
import MenelausVerif.Model.ErrRecs
namespace MV.EDDM

structure Cfg (α : Type) where
  nThreshold : Nat
  warningThresh : α
  driftThresh : α

structure State (α : Type) where
  total : Nat
  since : Nat
  drift : Drift
  nErrors : Nat
  /-- `_index_error_curr`: epoch-relative index of the latest error (0 before the first) -/
  idxCurr : Nat
  distMean : α
  distStd : α
  maxNum : α
  recs : Recs

variable {α : Type} [Add α] [Sub α] [Mul α] [Div α] [LT α] [DecidableLT α] [LE α] [DecidableLE α]
  [NatCast α] [HasSqrt α]

def zero : α := ((0 : Nat) : α)

def init : State α :=
  { total := 0, since := 0, drift := .none, nErrors := 0, idxCurr := 0, distMean := zero,
    distStd := zero, maxNum := zero, recs := Recs.empty }

/-- `EDDM.reset` (the total counter survives) -/
def reset (s : State α) : State α :=
  { s with since := 0, drift := .none, nErrors := 0, idxCurr := 0, distMean := zero,
           distStd := zero, maxNum := zero, recs := Recs.empty }

/-- `mean + (dist - mean) / n_errors` -/
def newMean (mean dist : α) (n : Nat) : α := mean + (dist - mean) / (n : α)

/-- `sqrt((std + (dist - mean') * (dist - mean)) / n_errors)` -/
def newStd (std mean mean' dist : α) (n : Nat) : α :=
  sqrt ((std + (dist - mean') * (dist - mean)) / (n : α))

/-- `curr_numerator = mean + 2 * std` -/
def numerator (mean std : α) : α := mean + ((2 : Nat) : α) * std

/-- `if max < cur: max = cur` -/
def newMax (mx cur : α) : α := if mx < cur then cur else mx

/-- the ratio test: `ts <= drift_thresh` / `ts <= warning_thresh` -/
def decide3 (c : Cfg α) (ts : α) : Drift :=
  if ts ≤ c.driftThresh then .drift
  else if ts ≤ c.warningThresh then .warning
  else .none

/-- the part of `update` after the optional reset -/
def core (c : Cfg α) (s : State α) (err : Bool) : State α :=
  let total := s.total + 1
  let since := s.since + 1
  if !err then
    { s with total := total, since := since }
  else
    let n := s.nErrors + 1
    let idx := since - 1
    let dist : α := ((idx - s.idxCurr : Nat) : α)
    let mean := newMean s.distMean dist n
    let std := newStd s.distStd s.distMean mean dist n
    if n < c.nThreshold then
      { s with total := total, since := since, nErrors := n, idxCurr := idx, distMean := mean, distStd := std }
    else
      let cur := numerator mean std
      let mx := newMax s.maxNum cur
      let st := decide3 c (cur / mx)
      { total := total, since := since, drift := st, nErrors := n, idxCurr := idx, distMean := mean,
        distStd := std, maxNum := mx, recs := incRecsFirst st s.total s.recs }

/-- `EDDM.update(y_true, y_pred)` with `err = (y_pred != y_true)` -/
def step (c : Cfg α) (s : State α) (err : Bool) : State α :=
  core c (if s.drift = .drift then reset s else s) err

def run (c : Cfg α) (xs : List Bool) : State α := xs.foldl (step c) init

end MV.EDDM
