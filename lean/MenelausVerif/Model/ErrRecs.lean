/-
  `retraining_recs` bookkeeping shared by DDM and EDDM
  (`ddm.py:126-136`, `eddm.py:142-152`: `_increment_retraining_recs`, called only
  when the new state is not `None`; `k = total_samples - 1`).
  STEPD has its own rule (`stepd.py:173-183`).  Import-free.
-/
import MenelausVerif.Base.Drift
namespace MV

/-- DDM / EDDM:
    `if state == "warning" and recs[0] is None: recs[0] = k`
    `if state == "drift": recs[1] = k; if recs[0] is None: recs[0] = k` -/
def incRecsFirst (st : Drift) (k : Nat) (r : Recs) : Recs :=
  match st with
  | .none => r
  | .warning => (match r.1 with | Option.none => (some k, r.2) | some _ => r)
  | .drift => (match r.1 with | Option.none => (some k, some k) | some a => (some a, some k))

/-- STEPD: `if recs[0] is None: recs = [k, k] else: recs[1] += 1`
    (Python would raise on `None + 1`; the model keeps `None` there — unreachable, see
    `Props/C05.lean` `stepd_recs_inv`). -/
def incRecsRun (k : Nat) (r : Recs) : Recs :=
  match r.1 with
  | Option.none => (some k, some k)
  | some a => (some a, r.2.map (· + 1))

end MV
