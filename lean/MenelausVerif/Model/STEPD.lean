/-
  Model of menelaus/concept_drift/stepd.py (`STEPD.update`, `reset`, the three accuracy
  accessors, `_increment_retraining_recs`).  Carrier-polymorphic, import-free.
  One `Bool` per sample: `true` = the prediction was wrong
  (`classifier_result = int(y_pred == y_true) = 0`).

  The code computes `p = 1 - scipy.stats.norm.cdf(z, 0, 1)` and tests `p < alpha`.
  The model tests `z > zcrit` with the two critical values as configuration inputs
  (supplied by the harness from scipy); equivalent because the normal cdf is
  strictly increasing.  `window_size = 0` is rejected by the code (ZeroDivisionError).
-/
import MenelausVerif.Base.Drift
import MenelausVerif.Base.Arith
import MenelausVerif.Model.ErrRecs
namespace MV.STEPD

structure Cfg (α : Type) where
  window : Nat
  /-- critical value of `alpha_warning`: `p < alpha_warning ↔ z > zWarn` -/
  zWarn : α
  /-- critical value of `alpha_drift` -/
  zDrift : α

structure State where
  total : Nat
  since : Nat
  drift : Drift
  /-- `_s`: correct predictions inside `_window` -/
  sIn : Nat
  /-- `_r`: correct predictions that left the window in this epoch -/
  rPast : Nat
  /-- `_window` (`true` = correct), oldest first -/
  win : List Bool
  recs : Recs

def init : State :=
  { total := 0, since := 0, drift := .none, sIn := 0, rPast := 0, win := [], recs := Recs.empty }

/-- `STEPD.reset` (the total counter survives) -/
def reset (s : State) : State :=
  { s with since := 0, drift := .none, sIn := 0, rPast := 0, win := [], recs := Recs.empty }

def b2n (b : Bool) : Nat := if b then 1 else 0

/-- counters and window after appending the new result and trimming (`stepd.py:86-95`) -/
def push (w : Nat) (s : State) (ok : Bool) : State :=
  let sIn := s.sIn + b2n ok
  let win := s.win ++ [ok]
  if win.length > w then
    match win with
    | h :: t => { s with total := s.total + 1, since := s.since + 1, sIn := sIn - b2n h, rPast := s.rPast + b2n h, win := t }
    | [] => { s with total := s.total + 1, since := s.since + 1, sIn := sIn, win := win }
  else
    { s with total := s.total + 1, since := s.since + 1, sIn := sIn, win := win }

variable {α : Type} [Add α] [Sub α] [Mul α] [Div α] [Neg α] [LT α] [DecidableLT α] [NatCast α] [HasSqrt α]

/-- `recent_accuracy()` -/
def recentAcc (s : State) : α :=
  if s.win.length = 0 then ((0 : Nat) : α) else (s.sIn : α) / (s.win.length : α)

/-- `past_accuracy()` -/
def pastAcc (s : State) : α :=
  if s.since - s.win.length = 0 then ((0 : Nat) : α) else (s.rPast : α) / ((s.since - s.win.length : Nat) : α)

/-- `overall_accuracy()` -/
def overallAcc (s : State) : α :=
  if s.since = 0 then ((0 : Nat) : α) else ((s.rPast + s.sIn : Nat) : α) / (s.since : α)

/-- `1/(n - w) + 1/w` -/
def invSum (since w : Nat) : α :=
  ((1 : Nat) : α) / ((since - w : Nat) : α) + ((1 : Nat) : α) / (w : α)

/-- the continuity-corrected two-proportion statistic (`stepd.py:101-115`) -/
def statistic (w : Nat) (s : State) : α :=
  let recent : α := recentAcc s
  let past : α := pastAcc s
  let overall : α := overallAcc s
  (absOf (past - recent) - ((1 : Nat) : α) / ((2 : Nat) : α) * invSum s.since w)
    / sqrt (overall * (((1 : Nat) : α) - overall) * invSum s.since w)

/-- `accuracy_decreased and p < alpha_drift` / `… alpha_warning` -/
def decide3 (c : Cfg α) (s : State) : Drift :=
  let z : α := statistic c.window s
  let dec : Bool := decide ((recentAcc s : α) < pastAcc s)
  if dec ∧ c.zDrift < z then .drift
  else if dec ∧ c.zWarn < z then .warning
  else .none

/-- the part of `update` after the optional reset -/
def core (c : Cfg α) (s : State) (err : Bool) : State :=
  let s1 := push c.window s (!err)
  if 2 * c.window ≤ s1.since then
    let st := decide3 c s1
    match st with
    | .none => { s1 with drift := .none, recs := Recs.empty }
    | _ => { s1 with drift := st, recs := incRecsRun s.total s1.recs }
  else s1

/-- `STEPD.update(y_true, y_pred)` with `err = (y_pred != y_true)` -/
def step (c : Cfg α) (s : State) (err : Bool) : State :=
  core c (if s.drift = .drift then reset s else s) err

def run (c : Cfg α) (xs : List Bool) : State := xs.foldl (step c) init

end MV.STEPD
