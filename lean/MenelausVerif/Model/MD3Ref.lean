/-
  Model of `MD3.calculate_distribution_statistics` (menelaus/concept_drift/md3.py:135-208):
  the summary of a reference batch by the mean and (population) standard deviation,
  over the k cross-validation folds, of the margin density and of the accuracy.
  Carrier-polymorphic, import-free.

  Input: for each of the k folds (in the order `KFold.split` yields them) the list of
  its test samples as pairs (in-margin bit, correctly-classified bit).  What stays an
  oracle input (DESIGN §3.3): the fold *membership* (`KFold(n_splits=k, shuffle=True,
  random_state=42)`), the margin bit (`margin_calculation_function(self, x, dup)`, 1 or 0)
  and the correctness bit (`dup.predict(x) == y`) under the classifier `dup` re-fitted on
  the fold's training part.

  Transcribed, statement by statement:

      margin_density = sum(signal_func_values) / len(signal_func_values)   -- `ratio`   (int / int)
      accuracy       = accuracy_score(y_test, y_pred)                      -- `ratio`   (mean of a bool array)
      md  = np.mean(margin_densities);  md_std  = np.std(margin_densities) -- `npMean`, `npStd`
      acc = np.mean(accuracies);        acc_std = np.std(accuracies)
      "len": len(data)                                                     -- number of rows = Σ fold sizes

  `np.mean(a)` is `np.add.reduce(a) / n`; `np.std(a)` is
  `sqrt(np.add.reduce((a - mean)*(a - mean)) / n)` (ddof = 0, numpy/_core/_methods.py `_var`).
  `np.add.reduce` over a contiguous float64 vector is numpy's *pairwise summation*
  (`DOUBLE_pairwise_sum`, numpy/_core/src/umath/loops_utils.h.src), transcribed below as
  `npSum`: fewer than 8 elements are added left to right starting from 0; up to 128 elements
  are added into 8 interleaved running lanes, the lanes are combined as
  ((r0+r1)+(r2+r3))+((r4+r5)+(r6+r7)) and the remaining (< 8) elements added one by one;
  longer vectors are split at `n/2` rounded down to a multiple of 8 and the halves' sums added.
  In a field all of this is the plain sum (Props/C19Ref.lean `npSum_eq_sum`); at `Float` the
  order of the additions is observable in the last bits, and following it makes the executed
  model agree with numpy bit for bit (the correspondence check counts how often).

  Not reachable in the real code (the model is nevertheless total): k = 0, k = 1 and
  k > number of rows — `KFold` raises `ValueError`, so no fold is ever empty; at `Float` the
  model then divides 0 by 0 (NaN), at a field `x / 0 = 0`.
-/
import MenelausVerif.Model.MD3
namespace MV.MD3

variable {α : Type} [Add α] [Sub α] [Mul α] [Div α] [NatCast α]

/-! ### numpy's pairwise summation -/

/-- the eight running sums of `DOUBLE_pairwise_sum`'s unrolled loop -/
structure Lanes (α : Type) where
  r0 : α
  r1 : α
  r2 : α
  r3 : α
  r4 : α
  r5 : α
  r6 : α
  r7 : α

/-- `for (i = 8; i < n - (n % 8); i += 8) { r[j] += a[i + j] }`: consume complete groups of
    eight; returns the lanes and the remaining (fewer than eight) elements -/
def lanesGo (r : Lanes α) : List α → Lanes α × List α
  | a0 :: a1 :: a2 :: a3 :: a4 :: a5 :: a6 :: a7 :: rest =>
    lanesGo { r0 := r.r0 + a0, r1 := r.r1 + a1, r2 := r.r2 + a2, r3 := r.r3 + a3,
              r4 := r.r4 + a4, r5 := r.r5 + a5, r6 := r.r6 + a6, r7 := r.r7 + a7 } rest
  | rest => (r, rest)

/-- `res = ((r[0] + r[1]) + (r[2] + r[3])) + ((r[4] + r[5]) + (r[6] + r[7]))` -/
def Lanes.combine (r : Lanes α) : α :=
  ((r.r0 + r.r1) + (r.r2 + r.r3)) + ((r.r4 + r.r5) + (r.r6 + r.r7))

/-- `res += a[i]` for the listed elements, left to right -/
def addSeq (res : α) (xs : List α) : α := xs.foldl (· + ·) res

/-- the two non-recursive branches of `DOUBLE_pairwise_sum` (`n < 8`, and `n <= PW_BLOCKSIZE`) -/
def blockSum : List α → α
  | a0 :: a1 :: a2 :: a3 :: a4 :: a5 :: a6 :: a7 :: rest =>
    let p := lanesGo { r0 := a0, r1 := a1, r2 := a2, r3 := a3, r4 := a4, r5 := a5, r6 := a6, r7 := a7 } rest
    addSeq p.1.combine p.2
  | xs => addSeq zero xs

/-- `PW_BLOCKSIZE` -/
def pwBlock : Nat := 128

/-- where a vector longer than `PW_BLOCKSIZE` is split: `n2 = n / 2; n2 -= n2 % 8` -/
def pwSplit (n : Nat) : Nat := n / 2 - (n / 2) % 8

/-- `DOUBLE_pairwise_sum`; `fuel` bounds the recursion depth (every recursive call is on a
    strictly shorter vector, so `fuel = length` is never exhausted — `npSum`) -/
def pairwiseSum : Nat → List α → α
  | 0, xs => blockSum xs
  | fuel + 1, xs =>
    if xs.length ≤ pwBlock then blockSum xs
    else pairwiseSum fuel (xs.take (pwSplit xs.length)) + pairwiseSum fuel (xs.drop (pwSplit xs.length))

/-- `np.add.reduce(a)` for a float64 vector (the reduction starts from the identity 0.0, and
    `0.0 + x` is `x`) -/
def npSum (xs : List α) : α := pairwiseSum xs.length xs

/-- `np.mean(a)` = `umr_sum(a) / n` -/
def npMean (xs : List α) : α := npSum xs / ((xs.length : Nat) : α)

/-- the radicand of `np.std(a)`: `umr_sum((a - mean) * (a - mean)) / (n - ddof)` with `ddof = 0` -/
def npVar (xs : List α) : α :=
  let m := npMean xs
  npSum (xs.map (fun x => (x - m) * (x - m))) / ((xs.length : Nat) : α)

/-- `np.std(a)` (population standard deviation) -/
def npStd [HasSqrt α] (xs : List α) : α := sqrt (npVar xs)

/-! ### The k-fold summary -/

/-- one test sample of a fold: (inside the margin of the re-fitted classifier,
    classified correctly by it) -/
abbrev Sample := Bool × Bool

/-- a fold's test samples, in the order of `test_index` -/
abbrev Fold := List Sample

/-- `sum(bits) / len(bits)` -/
def ratio (bits : List Bool) : α := ((bits.count true : Nat) : α) / ((bits.length : Nat) : α)

/-- `margin_density` of one test band -/
def foldMd (f : Fold) : α := ratio (f.map Prod.fst)

/-- `accuracy` of one test band -/
def foldAcc (f : Fold) : α := ratio (f.map Prod.snd)

/-- `margin_densities` -/
def foldMds (folds : List Fold) : List α := folds.map foldMd

/-- `accuracies` -/
def foldAccs (folds : List Fold) : List α := folds.map foldAcc

/-- number of rows of the batch: KFold's test sets partition them -/
def totalLen (folds : List Fold) : Nat := (folds.map List.length).sum

/-- the radicand of `md_std` -/
def mdVar (folds : List Fold) : α := npVar (foldMds folds)

/-- the radicand of `acc_std` -/
def accVar (folds : List Fold) : α := npVar (foldAccs folds)

/-- `calculate_distribution_statistics` -/
def refStats [HasSqrt α] (folds : List Fold) : Ref α :=
  { len := totalLen folds,
    md := npMean (foldMds folds),
    mdStd := npStd (foldMds folds),
    acc := npMean (foldAccs folds),
    accStd := npStd (foldAccs folds) }

/-! ### MD3 with the reference summary computed by the model -/

variable [Neg α] [LT α] [DecidableLT α] [HasSqrt α]

/-- the calls of MD3 with the k-fold bit lists of the batch that would be adopted in the
    place of ready-made statistics -/
inductive OpF where
  | update (rows : Nat) (inMargin : Bool)
  /-- `folds`: the k-fold bits of the labelled samples gathered in this round *including this
      one* — read only when this sample completes the round -/
  | label (rows : Nat) (cols : List Nat) (correct : Bool) (folds : List Fold)

/-- the same call in the oracle form of `Model/MD3.lean` -/
def OpF.toOp : OpF → Op α
  | .update rows sig => .update rows sig
  | .label rows cols correct folds => .label rows cols correct (refStats folds)

/-- `MD3(...)` followed by the first `set_reference(X)`, the k-fold bits of `X` being `folds` -/
def initF (c : Cfg α) (folds : List Fold) : State α :=
  let r : Ref α := refStats folds
  { total := 0, since := 0, drift := .none, waiting := false, labels := [],
    md := r.md, ref := r, lam := forgetting r.len, oracleReq := c.oracleLen.getD r.len }

/-- `set_reference` on the batch whose k-fold bits are `folds` (md3.py:125-133) -/
def setReferenceF (s : State α) (folds : List Fold) : State α :=
  let r : Ref α := refStats folds
  { s with ref := r, lam := forgetting r.len, md := r.md }

/-- md3.py:299-316 -/
def decideF (c : Cfg α) (s : State α) (folds : List Fold) : State α :=
  let s1 := if confirmTest c s.ref s.labels then { s with drift := .drift } else s
  let s2 := setReferenceF s1 folds
  { s2 with labels := [], waiting := false }

/-- md3.py:290-316 -/
def labelCoreF (c : Cfg α) (s : State α) (correct : Bool) (folds : List Fold) : State α :=
  let s1 := { s with drift := .none, labels := correct :: s.labels }
  if s1.labels.length = s1.oracleReq then decideF c s1 folds else s1

/-- `MD3.give_oracle_label` (md3.py:255-316) -/
def labelF (c : Cfg α) (s : State α) (rows : Nat) (cols : List Nat) (correct : Bool)
    (folds : List Fold) : State α × Outcome :=
  if !s.waiting then (s, .refused .labelNotWaiting)
  else if rows ≠ 1 then (s, .refused .labelRows)
  else if !sameColumns cols c.refCols then (s, .refused .labelCols)
  else (labelCoreF c s correct folds, .accepted)

def stepF (c : Cfg α) (s : State α) : OpF → State α × Outcome
  | .update rows sig => update c s rows sig
  | .label rows cols correct folds => labelF c s rows cols correct folds

def runF (c : Cfg α) (s : State α) (ops : List OpF) : State α :=
  ops.foldl (fun s op => (stepF c s op).1) s

end MV.MD3
