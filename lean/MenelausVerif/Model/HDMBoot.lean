/-
  Model of `HistogramDensityMethod._estimate_initial_epsilon`
  (menelaus/data_drift/histogram_density_method.py) — the bootstrap estimate ε₀ of the first ε of an
  epoch — and of `update` with that estimate computed by the model instead of being handed in as an
  oracle value (`Oracle.eps0` of Model/HDM.lean).  Carrier-polymorphic, import-free.

  The code, as it is:

      size = int((1 - (1 / num_subsets)) * self.reference_n)
      for i in range(num_subsets):
          subset = reference.sample(n=size, replace=True)             # pandas: np.random.choice(len(reference),
          bootstraps.append(self._build_histograms(subset, mins, maxes))  # size=size, replace=True) ; take(indices)
      for i < j:   total_distance = 0
                   for f in range(dim): total_distance += distance_function(bootstraps[i][f], bootstraps[j][f])
                   distances.append(total_distance)                    # summed over the features, NOT averaged
      epsilon = 0
      for a < b:   epsilon += abs(distances[a] - distances[b]) * 1.0   # over pairs of pairwise distances
      epsilon0 = epsilon / num_subsets                                 # divided by the number of subsets,
                                                                       # not by the number of terms

  `mins` / `maxes` are the per-feature ranges over reference ∪ batch that `update` computed for this
  batch, the histograms use the current `_bins`, and `reference` is the reference *before* this batch
  is appended.

  Inputs of the model: the draws — for each subset the row positions `np.random.choice` returned
  (`draws : List (List Nat)`).  Everything else is computed.  What the code guarantees about the draws
  (their number is `num_subsets`, each has `size` entries, each entry is a row position of the
  reference) is the executable predicate `validDraws`; the driver evaluates it on the captured draws, so
  a change of the `size` formula or of the number of subsets is seen even where ε₀ happens to agree.

  `num_subsets = 0` raises `ZeroDivisionError` in the code (`1 / num_subsets`) on the batch on which
  the bootstrap is due: `updateB` rejects that call (`none`).
-/
import MenelausVerif.Model.HDM
namespace MV.HDM
open MV

section
variable {α : Type} [Add α] [Sub α] [Mul α] [Div α] [Neg α] [LT α] [DecidableLT α]
  [LE α] [DecidableLE α] [NatCast α] [BEq α] [HasSqrt α] [HasLogExp α] [HasLog1p α] [HasTrunc α]

/-! ### the pieces of `_estimate_initial_epsilon` -/

variable (α) in
/-- `size = int((1 - (1 / num_subsets)) * self.reference_n)` (float arithmetic, then truncation) -/
def bootSize (k refN : Nat) : Nat :=
  truncNat (((one : α) - (one : α) / (k : α)) * (refN : α))

/-- `reference.sample(n=size, replace=True)` once the positions are drawn: `reference.take(positions)`
    (positions outside the frame cannot be drawn; see `validDraws`) -/
def sampleRows (ref : List (List α)) (idx : List Nat) : List (List α) :=
  idx.filterMap (fun i => ref[i]?)

/-- `_build_histograms(subset, mins, maxes)`: one histogram per feature, `rg f = (mins[f], maxes[f])` -/
def subsetHists (bins dim : Nat) (rg : Nat → α × α) (rows : List (List α)) : List (List Nat) :=
  (List.range dim).map (fun f => hist bins (rg f).1 (rg f).2 (colOf rows f))

/-- all pairs `(l[i], l[j])`, `i < j`, in the order of the two nested loops -/
def pairsOf {β : Type} : List β → List (β × β)
  | [] => []
  | x :: xs => xs.map (fun y => (x, y)) ++ pairsOf xs

/-- `total_distance` of two subsets: the per-feature distances *summed* (both lists have `dim` entries) -/
def pairDistance (d : Divergence α) (h1 h2 : List (List Nat)) : α :=
  sumF (List.zipWith d.apply h1 h2)

/-- `distances`: one entry per pair of subsets -/
def bootDistances (d : Divergence α) (hs : List (List (List Nat))) : List α :=
  (pairsOf hs).map (fun p => pairDistance d p.1 p.2)

/-- the summands `abs(distances[a] - distances[b]) * 1.0`, `a < b` -/
def epsTerms (ds : List α) : List α :=
  (pairsOf ds).map (fun p => absOf (p.1 - p.2) * one)

/-- `epsilon / num_subsets` -/
def epsOfDistances (k : Nat) (ds : List α) : α :=
  sumF (epsTerms ds) / (k : α)

/-- the histograms of all subsets (`bootstraps`) -/
def bootHists (bins dim : Nat) (rg : Nat → α × α) (ref : List (List α)) (draws : List (List Nat)) :
    List (List (List Nat)) :=
  draws.map (fun idx => subsetHists bins dim rg (sampleRows ref idx))

/-- **ε₀** = `_estimate_initial_epsilon(reference, num_subsets, mins, maxes)` for the given draws -/
def bootEps (d : Divergence α) (bins dim : Nat) (rg : Nat → α × α) (k : Nat) (ref : List (List α))
    (draws : List (List Nat)) : α :=
  epsOfDistances k (bootDistances d (bootHists bins dim rg ref draws))

variable (α) in
/-- what the code guarantees about the draws: `num_subsets` index vectors of `size` row positions of
    the reference each (`refN` = `self.reference_n`, `refLen` = `len(reference)`) -/
def validDraws (k refN refLen : Nat) (draws : List (List Nat)) : Bool :=
  draws.length == k &&
    draws.all (fun idx => idx.length == bootSize α k refN && idx.all (fun i => decide (i < refLen)))

/-! ### `update` with the modelled bootstrap -/

/-- external values consumed by one call in bootstrap form: the draws of `DataFrame.sample` (empty
    when the call draws nothing) and the `t` critical value -/
structure Ext (α : Type) where
  draws : List (List Nat)
  tcrit : α

/-- does the body of `update`, entered in state `s`, run the bootstrap?
    (`batches_since_reset == 2 and detect_batch != 3`, after the counter was incremented) -/
def bootDue (c : Cfg α) (s : State α) : Bool :=
  s.since + 1 == 2 && c.detectBatch != 3

/-- ε₀ as the body of `update` computes it in state `s` for batch `X`: reference, `_bins` and
    `reference_n` of the state, ranges over reference ∪ batch -/
def stepBootEps (c : Cfg α) (k : Nat) (draws : List (List Nat)) (s : State α) (dim : Nat)
    (X : List (List α)) : α :=
  bootEps c.div s.bins dim (rangeOf s.reference X) k s.reference draws

/-- the oracle record of Model/HDM.lean filled in by the model -/
def stepOracle (c : Cfg α) (k : Nat) (e : Ext α) (s : State α) (dim : Nat) (X : List (List α)) :
    Oracle α :=
  { eps0 := if bootDue c s then stepBootEps c k e.draws s dim X else zero, tcrit := e.tcrit }

/-- are the draws handed in the ones this call makes?  none when no bootstrap is due, otherwise
    `validDraws` for the state's `reference_n` and reference -/
def drawsOk (c : Cfg α) (k : Nat) (draws : List (List Nat)) (s : State α) : Bool :=
  if bootDue c s then validDraws α k s.refN s.reference.length draws else draws.isEmpty

/-- an oracle record for the calls that cannot reach the bootstrap (`reset`, `set_reference`) -/
def noBoot (tcrit : α) : Oracle α := { eps0 := zero, tcrit := tcrit }

/-- the state in which the body of `update` runs (after the `reset` that follows a drift) -/
def preStateB (c : Cfg α) (tcrit : α) (s : State α) : Option (State α) :=
  if s.drift = .drift then reset c (noBoot tcrit) s else some s

/-- `update(X)` with ε₀ computed from the draws; `k` = `subsets` -/
def updateB (c : Cfg α) (k : Nat) (e : Ext α) (s : State α) (X : List (List α)) : Option (State α) :=
  if s.hasRef then
    match preStateB c e.tcrit s with
    | none => none
    | some s' =>
      match validBatch c s'.dim X with
      | some d =>
        if bootDue c s' && k == 0 then none      -- `1 / num_subsets`: ZeroDivisionError
        else some (updateCore c (stepOracle c k e s' d X) s' d X)
      | none => none
  else none

/-- `set_reference(X)` (never reaches the bootstrap) -/
def setReferenceB (c : Cfg α) (tcrit : α) (s : State α) (X : List (List α)) : Option (State α) :=
  setReference c (noBoot tcrit) s X

/-- one public call in bootstrap form -/
inductive OpB (α : Type) where
  | setRef (X : List (List α)) (tcrit : α)
  | batch (X : List (List α)) (e : Ext α)

def stepB (c : Cfg α) (k : Nat) (s : State α) : OpB α → Option (State α)
  | .setRef X tc => setReferenceB c tc s X
  | .batch X e => updateB c k e s X

/-- a history of accepted calls (`none` as soon as one is rejected) -/
def runB (c : Cfg α) (k : Nat) : State α → List (OpB α) → Option (State α)
  | s, [] => some s
  | s, op :: ops => match stepB c k s op with
    | some s' => runB c k s' ops
    | none => none

/-- the oracle record that `update(X)` in state `s` works with when ε₀ is computed from the draws -/
def oracleOf (c : Cfg α) (k : Nat) (e : Ext α) (s : State α) (X : List (List α)) : Oracle α :=
  match preStateB c e.tcrit s with
  | some s' =>
    match validBatch c s'.dim X with
    | some d => stepOracle c k e s' d X
    | none => noBoot e.tcrit
  | none => noBoot e.tcrit

/-- the oracle-form call (`Op` of Model/HDM.lean) that a bootstrap-form call amounts to in state `s`:
    the same data, the oracle record filled in with the model's ε₀ -/
def toOp (c : Cfg α) (k : Nat) (s : State α) : OpB α → Op α
  | .setRef X tc => .setRef X (noBoot tc)
  | .batch X e => .batch X (oracleOf c k e s X)

/-- the oracle-form history of a bootstrap-form history (follows the run; stops translating where
    the run stops) -/
def toOps (c : Cfg α) (k : Nat) : State α → List (OpB α) → List (Op α)
  | _, [] => []
  | s, op :: ops =>
    toOp c k s op :: (match stepB c k s op with
      | some s' => toOps c k s' ops
      | none => [])

end
end MV.HDM
