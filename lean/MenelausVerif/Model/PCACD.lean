/-
  Model of menelaus/data_drift/pca_cd.py (`PCACD.__init__`, `update`, `reset`,
  `_build_histograms`, `_intersection_divergence`) with the embedded
  `PageHinkley` monitor of Model/PageHinkley.lean.  Carrier-polymorphic,
  import-free.

  What is modelled: the window / schedule state machine of `update`, the derived
  parameters (`step`, `ph_threshold`, `bins`), the per-component supports, the
  winsorising of new projections, `np.histogram(..., density=True)` on uniform
  bins followed by the renormalisation, the intersection divergence, the maximum
  over components and the Page-Hinkley decision.

  What is an ORACLE INPUT (`Oracle`, supplied per update): everything that
  sklearn / scipy compute — `num_pcs`, the projections of the reference and test
  windows on the retained components at build time, the projection of each new
  sample, and (metric "kl") the per-component Jensen-Shannon distance of the two
  kernel density estimates.  A sample itself is an opaque value of type `X`
  (the model never computes with raw data); `online_scaling` is carried in the
  configuration and never read by `step`.

  Inputs the real code rejects (outside the model's claims): `window_size = 0`
  (PCA raises on an empty window), `round(sample_period * window_size) <= 0`
  (`% 0` raises; `mkCfg` returns `none`), `num_pcs = 0` (`max([])` raises — PCA
  always retains at least one component), NaN / inf data, a component whose
  scores are all equal with metric "kl" (zero KDE bandwidth).
-/
import MenelausVerif.Base.Drift
import MenelausVerif.Base.Arith
import MenelausVerif.Model.PageHinkley
namespace MV.PCACD

/-- truncation toward zero (`ndarray.astype(np.intp)`, `int()`) -/
class HasTrunc (α : Type) where
  truncInt : α → Int
export HasTrunc (truncInt)

instance : HasTrunc Float := ⟨fun x => x.toInt64.toInt⟩

inductive Metric where
  | kl | intersection
  deriving DecidableEq, Repr

structure Cfg (α : Type) where
  w : Nat
  step : Nat
  bins : Nat
  metric : Metric
  scaling : Bool
  ph : PH.Cfg α

/-- what sklearn / scipy computed for this update (only the fields named by `need` are read) -/
structure Oracle (α : Type) where
  numPcs : Nat := 0
  /-- component-major: `refProj[i]` = the `window_size` scores of the reference window on PC i -/
  refProj : List (List α) := []
  testProj : List (List α) := []
  /-- projection of the new (scaled) sample, one value per component -/
  proj : List α := []
  /-- metric "kl": Jensen-Shannon distance of the KDE vectors, one value per component -/
  js : List α := []

structure State (X α : Type) where
  total : Nat
  since : Nat
  drift : Drift
  /-- `_build_reference_and_test` -/
  building : Bool
  ref : List X
  test : List X
  numPcs : Option Nat
  lower : List α
  upper : List α
  refProj : List (List α)
  testProj : List (List α)
  /-- `_density_reference[PCi]["density"]` (metric "intersection") -/
  densRef : List (List α)
  ph : PH.State α
  /-- `_change_score` -/
  scores : List α

inductive Need where
  | none | build | proj | js
  deriving DecidableEq, Repr

section
variable {α : Type} [Add α] [Sub α] [Mul α] [Div α] [LT α] [DecidableLT α] [LE α] [DecidableLE α]
  [NatCast α] [IntCast α] [HasTrunc α]

def zero : α := ((0 : Nat) : α)
def one : α := ((1 : Nat) : α)
def half : α := ((1 : Nat) : α) / ((2 : Nat) : α)

/-! ### Python `round` (half to even, exact on the binary value) -/

def pyRoundNonneg (x : α) : Int :=
  let n := truncInt x
  let d := x - ((n : Int) : α)
  if d < half then n else if half < d then n + 1 else if n % 2 = 0 then n else n + 1

def pyRound (x : α) : Int :=
  if x < zero then - pyRoundNonneg (zero - x) else pyRoundNonneg x

/-- `PCACD.__init__`: `step = min(100, round(sample_period * window_size))`,
    `ph_threshold = round(0.01 * window_size)`, `bins = floor(sqrt(window_size))`,
    `PageHinkley(delta, threshold = ph_threshold, burn_in = 0)`.
    `none` when `step <= 0` (the real code then fails in `% step` / is outside its domain). -/
def mkCfg (w : Nat) (samplePeriod delta : α) (metric : Metric) (scaling : Bool) : Option (Cfg α) :=
  let r : Int := pyRound (samplePeriod * ((w : Nat) : α))
  let st : Int := if r < 100 then r else 100
  let thr : Int := pyRound ((one / ((100 : Nat) : α)) * ((w : Nat) : α))
  if st ≤ 0 then none
  else some { w := w, step := st.toNat, bins := Nat.sqrt w, metric := metric, scaling := scaling,
              ph := { delta := delta, threshold := ((thr : Int) : α), burnIn := 0, dir := .positive } }

/-! ### list helpers (`Series.min/max`, `max(list)`, `np.sum`) -/

/-- `Series.min()` on NaN-free data -/
def minL : List α → α
  | [] => zero
  | x :: xs => xs.foldl pyMin x

def maxL : List α → α
  | [] => zero
  | x :: xs => xs.foldl pyMax x

/-- `np.sum` (left fold; numpy's own association differs in the last bits only) -/
def sumL (l : List α) : α := l.foldl (· + ·) zero

/-! ### `np.histogram(sample, bins, range=(lo, hi), density=True)` and the renormalisation -/

/-- `_get_outer_edges`: a degenerate range is widened by one half on each side -/
def outer (lo hi : α) : α × α :=
  if lo < hi ∨ hi < lo then (lo, hi) else (lo - half, hi + half)

/-- `np.linspace(lo, hi, bins + 1)` -/
def edges (bins : Nat) (lo hi : α) : List α :=
  let st := (hi - lo) / ((bins : Nat) : α)
  (List.range bins).map (fun j => ((j : Nat) : α) * st + lo) ++ [hi]

/-- the uniform-bin index rule with numpy's edge corrections (right edge closed) -/
def binIndex (bins : Nat) (lo hi : α) (E : List α) (x : α) : Nat :=
  let f := ((x - lo) / (hi - lo)) * ((bins : Nat) : α)
  let i0 := (truncInt f).toNat
  let i1 := if i0 = bins then i0 - 1 else i0
  let i2 := if x < E.getD i1 zero then i1 - 1 else i1
  if E.getD (i2 + 1) zero ≤ x ∧ i2 ≠ bins - 1 then i2 + 1 else i2

/-- bin counts of the values inside `[lo, hi]` -/
def counts (bins : Nat) (lo hi : α) (xs : List α) : List Nat :=
  let E := edges bins lo hi
  let idx := (xs.filter (fun x => decide (lo ≤ x) && decide (x ≤ hi))).map (binIndex bins lo hi E)
  (List.range bins).map (fun j => idx.count j)

def widths (E : List α) : List α := List.zipWith (fun a b => b - a) E (E.drop 1)

/-- `density=True`: `n / diff(edges) / n.sum()` -/
def density (bins : Nat) (lo hi : α) (xs : List α) : List α :=
  let cs := counts bins lo hi xs
  let n : Nat := cs.foldl (· + ·) 0
  List.zipWith (fun (c : Nat) db => ((c : Nat) : α) / db / ((n : Nat) : α)) cs (widths (edges bins lo hi))

/-- `d / np.sum(d)` -/
def normalise (d : List α) : List α :=
  let s := sumL d
  d.map (· / s)

/-- `_build_histograms(sample, bins, (lo, hi))["density"]` -/
def hist (bins : Nat) (lo hi : α) (xs : List α) : List α :=
  let r := outer lo hi
  normalise (density bins r.1 r.2 xs)

/-- `1 - np.sum(np.minimum(p, q))`, before the clamp -/
def rawInterDiv (p q : List α) : α := one - sumL (List.zipWith pyMin p q)

/-- `_intersection_divergence`: `max(1 - np.sum(np.minimum(p, q)), 0.0)` — Python `max`: the first
    argument unless `0.0 > it` (a NaN first argument is returned as is) -/
def interDiv (p q : List α) : α := pyMax (rawInterDiv p q) zero

/-- the histograms of all components, each on its own support -/
def hists (bins : Nat) (lower upper : List α) (proj : List (List α)) : List (List α) :=
  List.zipWith (fun (lu : α × α) xs => hist bins lu.1 lu.2 xs) (lower.zip upper) proj

/-- winsorising of one new projection to its component's support -/
def winsor (lo hi p : α) : α := if p < lo then lo else if hi < p then hi else p

def winsorAll (lower upper proj : List α) : List α :=
  List.zipWith (fun (lu : α × α) p => winsor lu.1 lu.2 p) (lower.zip upper) proj

end

section
variable {X α : Type} [Add α] [Sub α] [Mul α] [Div α] [LT α] [DecidableLT α] [LE α] [DecidableLE α]
  [NatCast α] [IntCast α] [HasTrunc α]

def init : State X α :=
  { total := 0, since := 0, drift := .none, building := true, ref := [], test := [], numPcs := none,
    lower := [], upper := [], refProj := [], testProj := [], densRef := [], ph := PH.init,
    scores := [zero] }

/-- the `if drift / elif reference short / elif test short` part of the fill phase
    (counters already incremented by `super().update`) -/
def fill (c : Cfg α) (s : State X α) (x : X) : State X α :=
  if s.drift ≠ .none then
    -- reference := former test window; test emptied; `reset()`; monitor reset; x is discarded
    { s with total := s.total + 1, since := 0, drift := .none, ref := s.test, test := [],
             ph := PH.reset s.ph }
  else if s.ref.length < c.w then
    { s with total := s.total + 1, since := s.since + 1, ref := s.ref ++ [x] }
  else if s.test.length < c.w then
    { s with total := s.total + 1, since := s.since + 1, test := s.test ++ [x] }
  else
    { s with total := s.total + 1, since := s.since + 1 }

/-- the block executed when the test window has just become full -/
def build (c : Cfg α) (s : State X α) (o : Oracle α) : State X α :=
  match c.metric with
  | .intersection =>
    let lower := List.zipWith (fun r t => pyMin (minL r) (minL t)) o.refProj o.testProj
    let upper := List.zipWith (fun r t => pyMax (maxL r) (maxL t)) o.refProj o.testProj
    { s with building := false, numPcs := some o.numPcs, lower := lower, upper := upper,
             refProj := o.refProj, testProj := o.testProj,
             densRef := hists c.bins lower upper o.refProj }
  | .kl =>
    -- the reference KDEs live on the oracle side
    { s with building := false, numPcs := some o.numPcs }

/-- `((total_samples - 1) % step == 0) and (total_samples - 1 != 0)`, in terms of the count before the update -/
def scheduled (c : Cfg α) (s : State X α) : Bool := s.total % c.step = 0 ∧ s.total ≠ 0

/-- the change score of a scheduled update, from the already slid test projections -/
def score (c : Cfg α) (s : State X α) (testProj : List (List α)) (o : Oracle α) : α :=
  match c.metric with
  | .intersection =>
    maxL (List.zipWith interDiv s.densRef (hists c.bins s.lower s.upper testProj))
  | .kl => maxL o.js

/-- test projections after the new sample (metric "intersection"; winsorised to the supports) -/
def slideProj (c : Cfg α) (s : State X α) (o : Oracle α) : List (List α) :=
  match c.metric with
  | .intersection =>
    List.zipWith (fun col v => col.drop 1 ++ [v]) s.testProj (winsorAll s.lower s.upper o.proj)
  | .kl => s.testProj

/-- the sliding phase of `update` -/
def slide (c : Cfg α) (s : State X α) (x : X) (o : Oracle α) : State X α :=
  let tp := slideProj c s o
  let s1 := { s with total := s.total + 1, since := s.since + 1, test := s.test.drop 1 ++ [x],
                     testProj := tp }
  if scheduled c s then
    let sc := score c s tp o
    let ph' := (PH.step c.ph s.ph sc).1
    if ph'.drift ≠ .none then
      { s1 with scores := s.scores ++ [sc], ph := ph', building := true, drift := .drift }
    else
      { s1 with scores := s.scores ++ [sc], ph := ph' }
  else s1

/-- `PCACD.update(X)` -/
def step (c : Cfg α) (s : State X α) (x : X) (o : Oracle α) : State X α :=
  if s.building then
    let s1 := fill c s x
    if s1.test.length = c.w then build c s1 o else s1
  else slide c s x o

def run (c : Cfg α) (inputs : List (X × Oracle α)) : State X α :=
  inputs.foldl (fun s xo => step c s xo.1 xo.2) init

/-- length of the test window after `fill` (does not depend on the sample) -/
def fillTestLen (c : Cfg α) (s : State X α) : Nat :=
  if s.drift ≠ .none then 0
  else if s.ref.length < c.w then s.test.length
  else if s.test.length < c.w then s.test.length + 1
  else s.test.length

/-- which oracle fields the next update reads -/
def need (c : Cfg α) (s : State X α) : Need :=
  if s.building then
    if fillTestLen c s = c.w then .build else .none
  else match c.metric with
    | .intersection => .proj
    | .kl => if scheduled c s then .js else .none

/-- relative margin of the Page-Hinkley decision taken by this update (for the harness' thin-margin rule) -/
def phRow (c : Cfg α) (s : State X α) (o : Oracle α) : Option (PH.Row α) :=
  if ¬ s.building ∧ scheduled c s then
    some (PH.step c.ph s.ph (score c s (slideProj c s o) o)).2
  else none

end
end MV.PCACD
