/-
  C15 — ownership model of "detectors and injectors never modify or keep live
  references to caller data".

  A store of objects (arrays / frames) at locations `0, 1, 2, …`; every allocated
  location is owned by the caller or by the detector.  The discipline the
  implementation is supposed to follow (menelaus/detector.py `_validate_X`: `np.array(X.values)` /
  `copy.copy` + `np.array`; kdq_tree.py / histogram_density_method.py deep copies;
  injector.py `_preprocess`: `np.copy(data)`):

    * `call`  : what the caller passes is COPIED into a fresh detector-owned location
                (validation), the detector never holds the caller's location;
    * `det f` : a detector operation reads only detector-owned locations and writes only
                detector-owned (or fresh) ones  — `Disciplined f`;
    * `poke`  : the caller overwrites objects it owns, at any time;
    * `inject`: an injector copies its input into a fresh location, transforms the copy and
                returns it with the container type of the input.

  Python object identity is outside any Lean model: that the implementation follows this
  discipline is established by the differential runs of harness/checks/c15.py only.
  Import-free.
-/
namespace MV.Store

inductive Owner where
  | free | caller | detector
  deriving DecidableEq, Repr

/-- container type of an object (what `_postprocess` restores) -/
inductive Tag where
  | ndarray | dataframe
  deriving DecidableEq, Repr

structure Obj (α : Type) where
  tag : Tag
  data : List α
  deriving DecidableEq, Repr

structure Store (α : Type) where
  mem : Nat → Obj α
  owner : Nat → Owner
  next : Nat

variable {α : Type}

def Store.empty (d : Obj α) : Store α := { mem := fun _ => d, owner := fun _ => .free, next := 0 }

/-- every location at or beyond the allocation pointer is free -/
def WF (s : Store α) : Prop := ∀ l, s.next ≤ l → s.owner l = .free

/-- allocate a fresh object -/
def alloc (s : Store α) (who : Owner) (o : Obj α) : Store α :=
  { mem := fun l => if l = s.next then o else s.mem l
    owner := fun l => if l = s.next then who else s.owner l
    next := s.next + 1 }

/-- validation: copy the object at `src` into a fresh detector-owned location -/
def copyIn (s : Store α) (src : Nat) : Store α := alloc s .detector (s.mem src)

/-- the caller overwrites the data of an object it owns (anything else is not addressable by it) -/
def pokeAt (s : Store α) (k : Nat) (w : List α) : Store α :=
  if s.owner k = .caller then
    { s with mem := fun l => if l = k then { s.mem k with data := w } else s.mem l }
  else s

inductive Op (α : Type) where
  /-- the caller builds an object and passes it to `update` / `set_reference` -/
  | call (tag : Tag) (v : List α)
  /-- the caller overwrites the object at location `k` -/
  | poke (k : Nat) (w : List α)
  /-- a detector-internal operation (window bookkeeping, adopting a batch as reference, …) -/
  | det (f : Store α → Store α)

def Op.isPoke : Op α → Bool
  | .poke _ _ => true
  | _ => false

def step (s : Store α) : Op α → Store α
  | .call tag v => copyIn (alloc s .caller ⟨tag, v⟩) s.next
  | .poke k w => pokeAt s k w
  | .det f => f s

def run (s : Store α) : List (Op α) → Store α
  | [] => s
  | op :: ops => run (step s op) ops

/-- observations of the detector after every call / detector operation (caller writes produce none) -/
def trace {γ : Type} (o : Store α → γ) : Store α → List (Op α) → List γ
  | _, [] => []
  | s, .poke k w :: ops => trace o (step s (.poke k w)) ops
  | s, .call tag v :: ops => o (step s (.call tag v)) :: trace o (step s (.call tag v)) ops
  | s, .det f :: ops => o (step s (.det f)) :: trace o (step s (.det f)) ops

/-- the same history without the caller's writes -/
def erase (ops : List (Op α)) : List (Op α) := ops.filter (fun op => !op.isPoke)

/-- an injector call: `_preprocess` copies the input, the copy is transformed by `g`,
    `_postprocess` gives it the container type of the input; the result is handed to the caller -/
def inject (s : Store α) (src : Nat) (g : List α → List α) : Store α :=
  alloc s .caller { tag := (s.mem src).tag, data := g (s.mem src).data }

end MV.Store
