/-
  Model of menelaus/concept_drift/lfr.py (`LinearFourRates.update`, `reset`,
  `_get_four_rates`, `_get_four_denominators`, `_update_bounds_dict`, `_sim_bounds`).
  Carrier-polymorphic, import-free.  The model follows the code as it is:

  * `_confusion` is indexed `[y_pred][y_true]` and starts at one per cell; the
    four rates are recomputed from it before and after the increment, and a
    rate "changed" when the two quotients differ (`new_rates[rate] != old_rates[rate]`);
  * the loop runs over `rates_tracked` *in the order given* (a Python list; the
    code does not reject repetitions, the model reproduces what it then does);
    only tracked rates have their `_p_table` / `_r_stat` entries written, and only
    they can raise a warning / alarm flag;
  * the bounds cache `_bounds[round(rate, round_val)][denominator]` survives
    `reset`; the rounding is numpy's (`np.float64.__round__` = `rint(x·10^d)/10^d`,
    ties to even on the *product*), not Python's exact `round`;
  * the Monte-Carlo simulation is a pure function of the Bernoulli draws, which
    are inputs (`Block` = `num_mc` vectors of `denominator` bits, one block per
    simulation actually run, in the order the code runs them);
  * `np.percentile` (method `linear`, numpy's `_lerp`) is modelled here.

  Not modelled (not observable through the public API): the per-index history
  dictionaries `_r_stat[i]`, `_p_table[i]`, `_warning_states[i]`,
  `_alarm_states[i]` for `i <` the current index (only the current and the
  previous index are ever read), and the top-level `_denominators[rate+"_N"]`
  entries (each is written immediately before its only read).
  Rejected by the real code / outside the model: `subsample = 0`
  (ZeroDivisionError), `num_mc = 0` and levels outside [0,1] (numpy raises),
  labels other than 0/1, names in `rates_tracked` other than the four rates,
  `parallelize=True` (joblib threads; same function body, scheduling not modelled).
-/
import MenelausVerif.Base.Drift
import MenelausVerif.Base.Arith
namespace MV.LFR

/-- the two roundings numpy applies: `floor` of a non-negative virtual index (as an
    index) and `rint` (nearest integer, ties to even).  No law is assumed. -/
class HasRound (α : Type) where
  floorNat : α → Nat
  rint : α → α

export HasRound (floorNat rint)

def floatRint (x : Float) : Float :=
  let f := x.floor
  let d := x - f
  if d < 0.5 then f
  else if 0.5 < d then f + 1
  else if (f / 2).floor * 2 == f then f else f + 1

instance : HasRound Float := ⟨fun x => x.floor.toUInt64.toNat, floatRint⟩

inductive Rate where
  | tpr | tnr | ppv | npv
  deriving DecidableEq, Repr, Inhabited

def allRates : List Rate := [.tpr, .tnr, .ppv, .npv]

/-- a dictionary with the four rate names as keys -/
abbrev Four (β : Type) := Rate → β

def Four.set {β : Type} (f : Four β) (r : Rate) (v : β) : Four β :=
  fun r' => if r' = r then v else f r'

/-- `_confusion.ravel()` = `tn, fn, fp, tp` (`[pred][true]`) -/
structure Conf where
  tn : Nat
  fn : Nat
  fp : Nat
  tp : Nat
  deriving DecidableEq, Repr

def Conf.init : Conf := ⟨1, 1, 1, 1⟩

/-- `self._confusion[y_p][y_t] += 1` -/
def Conf.bump (c : Conf) (yt yp : Bool) : Conf :=
  match yp, yt with
  | false, false => { c with tn := c.tn + 1 }
  | false, true => { c with fn := c.fn + 1 }
  | true, false => { c with fp := c.fp + 1 }
  | true, true => { c with tp := c.tp + 1 }

/-- numerators of `_get_four_rates` -/
def Conf.num (c : Conf) : Rate → Nat
  | .tpr => c.tp | .tnr => c.tn | .ppv => c.tp | .npv => c.tn

/-- `_get_four_denominators` -/
def Conf.den (c : Conf) : Rate → Nat
  | .tpr => c.tp + c.fn | .tnr => c.tn + c.fp | .ppv => c.fp + c.tp | .npv => c.tn + c.fn

structure Bounds (α : Type) where
  lbWarn : α
  ubWarn : α
  lbDetect : α
  ubDetect : α

/-- `num_mc` vectors of `denominator` Bernoulli draws: what one `_sim_bounds` call consumes -/
abbrev Block := List (List Bool)

/-- `_bounds`, flattened: (rounded rate, denominator) ↦ bounds; new keys are appended,
    lookup takes the first match, so an entry is never replaced -/
abbrev Cache (α : Type) := List ((α × Nat) × Bounds α)

structure Cfg (α : Type) where
  eta : α            -- time_decay_factor
  warnLevel : α
  detectLevel : α
  burnIn : Nat
  numMc : Nat
  subsample : Nat
  tracked : List Rate
  roundVal : Nat

structure State (α : Type) where
  total : Nat
  since : Nat
  drift : Drift
  recs : Recs
  conf : Conf
  p : Four α          -- `_p_table[samples_since_reset]`
  r : Four α          -- `_r_stat[samples_since_reset]`
  cache : Cache α     -- `_bounds`
  states : List Drift -- `all_drift_states`

variable {α : Type} [Add α] [Sub α] [Mul α] [Div α] [LT α] [DecidableLT α] [LE α] [DecidableLE α]
  [NatCast α] [BEq α] [HasRound α]

def zero : α := ((0 : Nat) : α)
def one : α := ((1 : Nat) : α)
def half : α := ((1 : Nat) : α) / ((2 : Nat) : α)
def hundred : α := ((100 : Nat) : α)

/-- `_get_four_rates` -/
def rates (c : Conf) : Four α := fun r => ((c.num r : Nat) : α) / ((c.den r : Nat) : α)

/-- `round(x, d)` for a numpy float64 scalar: `rint(x * 10**d) / 10**d` -/
def roundTo (x : α) (d : Nat) : α := rint (x * ((10 ^ d : Nat) : α)) / ((10 ^ d : Nat) : α)

/-! ### `np.percentile(…, q)` (method `linear`) on the sorted sample -/

def insertSorted (x : α) : List α → List α
  | [] => [x]
  | y :: ys => if x < y then x :: y :: ys else y :: insertSorted x ys

def sort (l : List α) : List α := l.foldr insertSorted []

/-- numpy `_lerp(a, b, t)` -/
def lerp (a b t : α) : α :=
  if (half : α) ≤ t then b - (b - a) * (one - t) else a + (b - a) * t

/-- `np.percentile(v, q100)` for `sorted = sort v`, `n = len(v) ≥ 1`.  Virtual index
    `(n-1)·(q100/100)`; at or beyond `n-1` the maximum, below 0 the minimum, otherwise
    `_lerp` between the two neighbours with weight `index − floor(index)`. -/
def percentile (sorted : List α) (q100 : α) : α :=
  let n := sorted.length
  let vi := ((n - 1 : Nat) : α) * (q100 / hundred)
  if ((n - 1 : Nat) : α) ≤ vi then sorted.getD (n - 1) zero
  else if vi < (zero : α) then sorted.getD 0 zero
  else
    let k := floorNat vi
    lerp (sorted.getD k zero) (sorted.getD (k + 1) zero) (vi - ((k : Nat) : α))

/-! ### `_sim_bounds` as a function of the draws -/

def powNat (x : α) : Nat → α
  | 0 => one
  | k + 1 => powNat x k * x

/-- `prods = [eta ** (denom - i) for i in 1..denom]` -/
def prods (eta : α) (denom : Nat) : List α :=
  (List.range denom).map (fun i => powNat eta (denom - (i + 1)))

/-- `get_Rj`: `(1 - eta) * sum(vec * bools)` (Python's left-to-right `sum` from 0) -/
def statOf (eta : α) (ps : List α) (bits : List Bool) : α :=
  (one - eta) *
    (List.zipWith (fun p (b : Bool) => p * (if b then (one : α) else zero)) ps bits).foldl (· + ·) zero

def simBounds (c : Cfg α) (denom : Nat) (block : Block) : Bounds α :=
  let ps := prods c.eta denom
  let v := sort (block.map (statOf c.eta ps))
  let qw := c.warnLevel * hundred
  let qd := c.detectLevel * hundred
  { lbWarn := percentile v qw, ubWarn := percentile v (hundred - qw),
    lbDetect := percentile v qd, ubDetect := percentile v (hundred - qd) }

/-! ### `_update_bounds_dict` -/

def keyEq (k k' : α × Nat) : Bool := k.1 == k'.1 && k.2 == k'.2

def lookup (k : α × Nat) : Cache α → Option (Bounds α)
  | [] => none
  | (k', b) :: rest => if keyEq k' k then some b else lookup k rest

def keyOf (c : Cfg α) (est : α) (denom : Nat) : α × Nat := (roundTo est c.roundVal, denom)

/-- one simulation as the model ran it: what it simulated and with which draws
    (ghost record for the correspondence check) -/
structure SimRec (α : Type) where
  est : α
  denom : Nat
  supplied : Bool   -- a block was available
  block : Block

/-- accumulator of the loop over `rates_tracked` -/
structure Acc (α : Type) where
  r : Four α
  p : Four α
  warn : Four Bool
  alarm : Four Bool
  cache : Cache α
  blocks : List Block            -- draws not yet consumed
  sims : List (SimRec α)         -- ghost: simulations run, in order
  log : List (Rate × α × Bounds α) -- ghost: (rate, statistic, bounds) of every test made

/-- the simulation `_sim_bounds` would produce now: it reads the next unread block of draws -/
def simNext (c : Cfg α) (a : Acc α) (denom : Nat) : Bounds α := simBounds c denom (a.blocks.headD [])

/-- cached bounds for the key, else simulate with the next block of draws and append -/
def getBounds (c : Cfg α) (a : Acc α) (est : α) (denom : Nat) : Bounds α × Acc α :=
  match lookup (keyOf c est denom) a.cache with
  | some b => (b, a)
  | none =>
    (simNext c a denom,
     { a with cache := a.cache ++ [(keyOf c est denom, simNext c a denom)], blocks := a.blocks.tail,
              sims := a.sims ++ [⟨est, denom, !a.blocks.isEmpty, a.blocks.headD []⟩] })

/-- the values `_calculate_rate_bounds` closes over -/
structure Ctx (α : Type) where
  rPrev : Four α     -- `_r_stat[n-1]`
  old : Four α
  new : Four α
  conf : Conf        -- after the increment
  agree : Bool       -- `y_t == y_p`
  n : Nat            -- `samples_since_reset` after the increment

def gate (c : Cfg α) (n : Nat) : Bool := decide (n > c.burnIn) && (n % c.subsample == 0)

def outside (x lb ub : α) : Bool := decide (x < lb) || decide (ub < x)

def newR (c : Cfg α) (x : Ctx α) (cur : α) (rate : Rate) : α :=
  if !(x.new rate == x.old rate) then
    c.eta * cur + (one - c.eta) * (if x.agree then (one : α) else zero)
  else x.rPrev rate

/-- `_calculate_rate_bounds(rate)` -/
def calcRate (c : Cfg α) (x : Ctx α) (a : Acc α) (rate : Rate) : Acc α :=
  let nr := newR c x (a.r rate) rate
  let a1 := { a with p := a.p.set rate (x.new rate), r := a.r.set rate nr }
  if gate c x.n then
    let g := getBounds c a1 (x.new rate) (x.conf.den rate)
    { g.2 with warn := g.2.warn.set rate (outside nr g.1.lbWarn g.1.ubWarn),
               alarm := g.2.alarm.set rate (outside nr g.1.lbDetect g.1.ubDetect),
               log := g.2.log ++ [(rate, nr, g.1)] }
  else a1

def init : State α :=
  { total := 0, since := 0, drift := .none, recs := Recs.empty, conf := Conf.init,
    p := fun _ => half, r := fun _ => half, cache := [], states := [] }

/-- `LinearFourRates.reset`: `_bounds`, `all_drift_states` and the total survive -/
def reset (s : State α) : State α :=
  { s with since := 0, drift := .none, recs := Recs.empty, conf := Conf.init,
           p := fun _ => half, r := fun _ => half }

def preReset (s : State α) : State α := if s.drift = .drift then reset s else s

def ctxOf (s0 : State α) (yt yp : Bool) : Ctx α :=
  let conf' := s0.conf.bump yt yp
  { rPrev := s0.r, old := rates s0.conf, new := rates conf', conf := conf',
    agree := (yt == yp), n := s0.since + 1 }

def acc0 (s0 : State α) (blocks : List Block) : Acc α :=
  { r := s0.r, p := s0.p, warn := fun _ => false, alarm := fun _ => false,
    cache := s0.cache, blocks := blocks, sims := [], log := [] }

/-- the loop over `rates_tracked`, after the optional reset (`s0 = preReset s`) -/
def loop (c : Cfg α) (s0 : State α) (yt yp : Bool) (blocks : List Block) : Acc α :=
  c.tracked.foldl (calcRate c (ctxOf s0 yt yp)) (acc0 s0 blocks)

def decide3 (a : Acc α) : Drift :=
  if allRates.any a.alarm then .drift
  else if allRates.any a.warn then .warning
  else .none

/-- `_increment_retraining_recs` (called when the state is not None); `i = total_samples - 1` -/
def recsUpd (r : Recs) (d : Drift) (i : Nat) : Recs :=
  match d with
  | .none => r
  | .warning => if r.1.isNone then (some i, r.2) else r
  | .drift => (if r.1.isNone then some i else r.1, some i)

def finish (s0 : State α) (yt yp : Bool) (a : Acc α) : State α :=
  let d := decide3 a
  { total := s0.total + 1, since := s0.since + 1, drift := d,
    recs := recsUpd s0.recs d s0.total,
    conf := s0.conf.bump yt yp, p := a.p, r := a.r, cache := a.cache,
    states := s0.states ++ [d] }

/-- `LinearFourRates.update(y_true, y_pred)` given the draws its simulations will make -/
def step (c : Cfg α) (s : State α) (yt yp : Bool) (blocks : List Block) : State α :=
  let s0 := preReset s
  finish s0 yt yp (loop c s0 yt yp blocks)

/-- ghost outputs of the same update (for the driver) -/
def stepAcc (c : Cfg α) (s : State α) (yt yp : Bool) (blocks : List Block) : Acc α :=
  loop c (preReset s) yt yp blocks

structure Op where
  yt : Bool
  yp : Bool
  blocks : List Block

def run (c : Cfg α) (ops : List Op) : State α :=
  ops.foldl (fun s o => step c s o.yt o.yp o.blocks) init

end MV.LFR
