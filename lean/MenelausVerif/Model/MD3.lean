/-
  Model of menelaus/concept_drift/md3.py (`MD3.set_reference`, `update`,
  `give_oracle_label`, `reset`) on top of the deprecated `DriftDetector` base
  (menelaus/detector.py: `total_updates`, `updates_since_reset`, `drift_state`).
  Carrier-polymorphic, import-free.

  What is *not* computed here (oracle inputs, DESIGN §3.3): the per-sample margin
  bit (`margin_calculation_function(self, sample, self.classifier)`), the
  per-sample correctness bit (`self.classifier.predict(x) == y`; the classifier is
  never refitted by MD3, so the bit of a sample is the same when it is supplied
  and when `accuracy_score` is evaluated at the N-th label).  The k-fold
  statistics `calculate_distribution_statistics` returns for a batch
  (`Ref`: len, md, md_std, acc, acc_std) are an input *of this file*; they are
  computed from per-fold bit lists by `Model/MD3Ref.lean` (`refStats`, `stepF`),
  which `Props/C19Ref.lean` connects to the definitions below.

  Python statements are threaded through the state in source order; a `raise`
  returns the state *as it is at that point* together with the refusal reason, so
  "a refused call changes nothing" is a theorem about the guard order, not a
  convention of the model.
-/
import MenelausVerif.Base.Drift
import MenelausVerif.Base.Arith
namespace MV.MD3

/-- `reference_distribution` -/
structure Ref (α : Type) where
  len : Nat
  md : α
  mdStd : α
  acc : α
  accStd : α

/-- constructor arguments that the protocol reads, plus the reference's column
names (`reference_batch_features.columns ++ reference_batch_target.columns`; only
their *set* and number are ever read, and adoption of the labelled samples keeps
both) -/
structure Cfg (α : Type) where
  sens : α
  oracleLen : Option Nat
  refCols : List Nat

structure State (α : Type) where
  total : Nat
  since : Nat
  drift : Drift
  waiting : Bool
  /-- `oracle_data`: one correctness bit per gathered sample, newest first (`[]` = `None`) -/
  labels : List Bool
  md : α
  ref : Ref α
  /-- `forgetting_factor` -/
  lam : α
  /-- `oracle_data_length_required` after the first `set_reference` -/
  oracleReq : Nat

/-- the five `raise ValueError` sites of `update` / `give_oracle_label`, in source order -/
inductive Refusal where
  | updateWaiting    -- md3.py:220  update while waiting_for_oracle
  | updateRows       -- md3.py:226  len(X) != 1
  | labelNotWaiting  -- md3.py:266  give_oracle_label while not waiting
  | labelRows        -- md3.py:272  len(labeled_sample) != 1
  | labelCols        -- md3.py:282  number / set of column names differs from the reference's
  deriving DecidableEq, Repr

inductive Outcome where
  | accepted
  | refused (r : Refusal)
  deriving DecidableEq, Repr

inductive Op (α : Type) where
  /-- `update(X)`: `len(X)`, margin bit of the sample under `self.classifier` -/
  | update (rows : Nat) (inMargin : Bool)
  /-- `give_oracle_label(labeled_sample)`: `len`, column names, correctness bit, and the
      statistics `set_reference` would compute if this sample completes the oracle set -/
  | label (rows : Nat) (cols : List Nat) (correct : Bool) (newRef : Ref α)

variable {α : Type} [Add α] [Sub α] [Mul α] [Div α] [Neg α] [LT α] [DecidableLT α] [NatCast α]

def one : α := ((1 : Nat) : α)
def zero : α := ((0 : Nat) : α)

/-- the value the margin function returns (1 in the margin, 0 outside) -/
def sigVal (b : Bool) : α := if b then one else zero

/-- `(len - 1) / len` (Python true division of two ints) -/
def forgetting (len : Nat) : α := ((len - 1 : Nat) : α) / (len : α)

/-- `len(a) != len(b) or set(a) != set(b)` negated (md3.py:282-284) -/
def sameColumns (a b : List Nat) : Bool :=
  a.length == b.length && a.all (fun x => b.contains x) && b.all (fun x => a.contains x)

/-- the assignments of `set_reference` that the protocol reads (md3.py:125-133);
    `oracle_data_length_required` is only filled in when it is still `None`, which
    the model resolves in `init` -/
def setReference (s : State α) (r : Ref α) : State α :=
  { s with ref := r, lam := forgetting r.len, md := r.md }

/-- `MD3(clf, f, sens, k, oracle_len)` followed by the first `set_reference(X)` whose statistics are `r` -/
def init (c : Cfg α) (r : Ref α) : State α :=
  { total := 0, since := 0, drift := .none, waiting := false, labels := [],
    md := r.md, ref := r, lam := forgetting r.len, oracleReq := c.oracleLen.getD r.len }

/-- `MD3.reset` = base `reset` (since := 0, drift := None) + restart of the margin density -/
def reset (s : State α) : State α :=
  { s with since := 0, drift := .none, md := s.ref.md }

/-- `forgetting_factor * curr_margin_density + (1 - forgetting_factor) * signal` -/
def mdRec (lam md : α) (sig : Bool) : α := lam * md + (one - lam) * sigVal sig

/-- `np.abs(md - md_ref) > sensitivity * md_std` -/
def warnTest (c : Cfg α) (r : Ref α) (md : α) : Bool :=
  decide (c.sens * r.mdStd < absOf (md - r.md))

/-- `accuracy_score` of the gathered samples: correct / gathered -/
def accOf (labels : List Bool) : α := ((labels.count true : Nat) : α) / ((labels.length : Nat) : α)

/-- `acc_ref - acc_labeled > sensitivity * acc_std` -/
def confirmTest (c : Cfg α) (r : Ref α) (labels : List Bool) : Bool :=
  decide (c.sens * r.accStd < r.acc - accOf labels)

/-- md3.py:232-233: `if self.drift_state == "drift": self.reset()` -/
def prep (s : State α) : State α := if s.drift = .drift then reset s else s

/-- the body of `update` after its two guards (md3.py:232-253) -/
def updateCore (c : Cfg α) (s : State α) (sig : Bool) : State α :=
  let s1 := prep s
  let s2 := { s1 with total := s1.total + 1, since := s1.since + 1 }   -- super().update
  let s3 := { s2 with md := mdRec s2.lam s2.md sig }
  if warnTest c s3.ref s3.md then { s3 with drift := .warning, waiting := true } else s3

/-- `MD3.update` (md3.py:210-253) -/
def update (c : Cfg α) (s : State α) (rows : Nat) (sig : Bool) : State α × Outcome :=
  if s.waiting then (s, .refused .updateWaiting)
  else if rows ≠ 1 then (s, .refused .updateRows)
  else (updateCore c s sig, .accepted)

/-- the block executed when the gathered samples reach `oracle_data_length_required` (md3.py:299-316) -/
def decide_ (c : Cfg α) (s : State α) (newRef : Ref α) : State α :=
  let s1 := if confirmTest c s.ref s.labels then { s with drift := .drift } else s
  let s2 := setReference s1 newRef
  { s2 with labels := [], waiting := false }

/-- the body of `give_oracle_label` after its three guards (md3.py:290-316) -/
def labelCore (c : Cfg α) (s : State α) (correct : Bool) (newRef : Ref α) : State α :=
  let s1 := { s with drift := .none, labels := correct :: s.labels }
  if s1.labels.length = s1.oracleReq then decide_ c s1 newRef else s1

/-- `MD3.give_oracle_label` (md3.py:255-316) -/
def label (c : Cfg α) (s : State α) (rows : Nat) (cols : List Nat) (correct : Bool)
    (newRef : Ref α) : State α × Outcome :=
  if !s.waiting then (s, .refused .labelNotWaiting)
  else if rows ≠ 1 then (s, .refused .labelRows)
  else if !sameColumns cols c.refCols then (s, .refused .labelCols)
  else (labelCore c s correct newRef, .accepted)

def step (c : Cfg α) (s : State α) : Op α → State α × Outcome
  | .update rows sig => update c s rows sig
  | .label rows cols correct newRef => label c s rows cols correct newRef

def run (c : Cfg α) (s : State α) (ops : List (Op α)) : State α :=
  ops.foldl (fun s op => (step c s op).1) s

/-- the outcomes of a history, call by call -/
def outcomes (c : Cfg α) (s : State α) : List (Op α) → List Outcome
  | [] => []
  | op :: ops => (step c s op).2 :: outcomes c (step c s op).1 ops

end MV.MD3
