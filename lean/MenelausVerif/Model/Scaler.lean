/-
  The standardising step of PCACD(online_scaling=True): sklearn's `StandardScaler` as PCACD uses it
  (menelaus/data_drift/pca_cd.py: `fit_transform` on the reference window, `transform` on the test
  window and on every later sample, `inverse_transform` on the test window when a drift turns it into
  the next reference window).

  Per column: `mean_` = arithmetic mean, `var_` = population variance, `scale_` = `sqrt(var_)` with
  the zero-variance rule: a column whose variance is 0 gets scale 1 (sklearn `_handle_zeros_in_scale`).
  `transform x = (x - mean_) / scale_`, `inverse_transform z = z * scale_ + mean_`.

  Import-free, carrier-polymorphic, no law assumed (BUILDING.md).
-/
import MenelausVerif.Base.Arith
namespace MV.Scaler
open MV

variable {α : Type} [Add α] [Sub α] [Mul α] [Div α] [NatCast α] [BEq α] [HasSqrt α]

def sumL (l : List α) : α := l.foldl (· + ·) ((0 : Nat) : α)

def colMean (col : List α) : α := sumL col / ((col.length : Nat) : α)

def colVar (col : List α) : α :=
  let m := colMean col
  sumL (col.map fun x => (x - m) * (x - m)) / ((col.length : Nat) : α)

/-- `scale_`: the standard deviation, 1 for a constant column -/
def scaleOf (v : α) : α := if v == ((0 : Nat) : α) then ((1 : Nat) : α) else sqrt v

structure Fit (α : Type) where
  mean : List α
  var : List α
  scale : List α

/-- `StandardScaler().fit(window)`, the window given column-wise -/
def fit (cols : List (List α)) : Fit α :=
  let vs := cols.map colVar
  { mean := cols.map colMean, var := vs, scale := vs.map scaleOf }

def transformRow (f : Fit α) (row : List α) : List α :=
  List.zipWith (fun (x : α) (ms : α × α) => (x - ms.1) / ms.2) row (f.mean.zip f.scale)

def inverseRow (f : Fit α) (z : List α) : List α :=
  List.zipWith (fun (y : α) (ms : α × α) => y * ms.2 + ms.1) z (f.mean.zip f.scale)

/-- the un-standardising shortcut `z * sqrt(var_) + mean_` (NOT what the code does: it ignores the
    zero-variance rule) — kept for the counter-example in `Props/C11Scaler.lean` -/
def inverseRowSqrtVar (f : Fit α) (z : List α) : List α :=
  List.zipWith (fun (y : α) (mv : α × α) => y * sqrt mv.2 + mv.1) z (f.mean.zip f.var)

end MV.Scaler
