/-
  Model of menelaus/data_drift/histogram_density_method.py (`HistogramDensityMethod`,
  the base of `HDDDM` and `CDBD`) as it is in /repo (after fix f08e627: `set_reference`
  restarts `_lambda`).  Carrier-polymorphic, import-free.

  What is modelled in Lean (not trusted):
    * `np.histogram(col, bins, range=(lo, hi))` on uniform bins — numpy's fast path:
      keep `lo ≤ x ≤ hi`, index `trunc((x - lo) / (hi - lo) * bins)`, index `= bins` moved to
      `bins - 1`, then the ±1 correction against the `linspace` edges
      (`edge i = i * ((hi - lo) / bins) + lo`, last edge `= hi`), an empty range widened by ±0.5;
    * `_hellinger_distance` as coded; `scipy.spatial.distance.jensenshannon` (normalise, mean,
      `rel_entr` with scipy's `log1p` branch, natural log, `sqrt(js / 2)`); a user divergence
      as an arbitrary function of the two count vectors;
    * the feature average, ε, the ε-list surgery on the third batch of an epoch, `d_scale`,
      β for both statistics, the drift test, reference append / replace, `reset` (incl. the
      `detect_batch = 1` split by position and the recursive proxy update), `set_reference`,
      `feature_info`.
  Inputs of the model (oracles, supplied by the harness, see harness/checks/c07.py):
    * `eps0`  — the bootstrap estimate `_estimate_initial_epsilon` (uses the global numpy RNG);
    * `tcrit` — `scipy.stats.t.ppf(1 - significance/2, reference_n + test_n - 2)`.
  Rejected calls (`none`): a batch with fewer than two rows or with a row whose width is not the
  established one (`ValueError` in `_validate_X`), `update` before `set_reference`
  (`AttributeError`), CDBD with more than one column, and — with `detect_batch = 1` — a reference
  (or a drifting batch, at the next update) of fewer than 3 rows, whose second half is a one-row
  proxy that `update` refuses from inside `reset`.
-/
import MenelausVerif.Base.Drift
import MenelausVerif.Base.Arith
namespace MV.HDM
open MV

/-- `astype(np.intp)` of a non-negative finite value: truncation toward zero -/
class HasTrunc (α : Type) where
  truncNat : α → Nat

/-- `log1p` (scipy's `rel_entr` uses it when `1/2 < x/y < 2`) -/
class HasLog1p (α : Type) where
  log1p : α → α

export HasTrunc (truncNat)
export HasLog1p (log1p)

instance : HasTrunc Float := ⟨fun x => x.toUInt64.toNat⟩
/-- core `Float` has no `log1p`; `log1p z = 2·atanh(z / (2 + z))` is accurate to a few ulp for
    the arguments that occur (`-1/2 < z < 1`) -/
instance : HasLog1p Float := ⟨fun z => 2 * Float.atanh (z / (2 + z))⟩

inductive Stat where
  | tstat | stdev
  deriving DecidableEq, Repr

/-- `divergence`: `"H"`, `"KL"` or a user function of (reference counts, test counts) -/
inductive Divergence (α : Type) where
  | hellinger
  | js
  | user (f : List Nat → List Nat → α)

structure Cfg (α : Type) where
  div : Divergence α
  detectBatch : Nat
  stat : Stat
  signif : α
  /-- `CDBD`: only one column is accepted -/
  univariate : Bool := false

/-- external values consumed by one `update` -/
structure Oracle (α : Type) where
  eps0 : α
  tcrit : α

structure FeatInfo (α : Type) where
  epsilons : List α
  featDist : List α
  argmax : Nat

structure State (α : Type) where
  /-- `_input_col_dim` (established by the first accepted input) -/
  dim : Option Nat
  hasRef : Bool
  total : Nat
  since : Nat
  drift : Drift
  reference : List (List α)
  refN : Nat
  bins : Nat
  eps : List α
  totalEps : α
  lambda : Nat
  prevDist : α
  prevFeat : List α
  curDist : Option α
  featEps : Option (List α)
  beta : Option α
  featInfo : Option (FeatInfo α)
  /-- the public dicts `distances`, `epsilon_values`, `thresholds` (keys = `total_batches`) -/
  distances : List (Nat × α)
  epsValues : List (Nat × α)
  thresholds : List (Nat × α)

section
variable {α : Type} [Add α] [Sub α] [Mul α] [Div α] [Neg α] [LT α] [DecidableLT α]
  [LE α] [DecidableLE α] [NatCast α] [BEq α] [HasSqrt α] [HasLogExp α] [HasLog1p α] [HasTrunc α]

def zero : α := ((0 : Nat) : α)
def one : α := ((1 : Nat) : α)
def two : α := ((2 : Nat) : α)
def half : α := (one : α) / two

def sq (x : α) : α := x * x

/-- Python `sum(...)` / a running `+=` that starts from the int `0` -/
def sumF (l : List α) : α := l.foldl (· + ·) zero

/-! ### histograms -/

/-- column `f` of a list of rows -/
def colOf (rows : List (List α)) (f : Nat) : List α := rows.filterMap (fun r => r[f]?)

/-- `min` / `max` of a non-empty array (numpy raises on an empty one; `[]` is never passed) -/
def minOf : List α → α
  | [] => zero
  | x :: xs => xs.foldl pyMin x
def maxOf : List α → α
  | [] => zero
  | x :: xs => xs.foldl pyMax x

/-- `_get_outer_edges`: an empty range is widened by ±0.5 -/
def widen (lo hi : α) : α × α :=
  if lo == hi then (lo - half, hi + half) else (lo, hi)

/-- `np.linspace(lo, hi, bins + 1)[i]` -/
def edge (lo hi : α) (bins i : Nat) : α :=
  if i = bins then hi else (i : α) * ((hi - lo) / (bins : α)) + lo

/-- numpy's uniform-bin index of a kept value -/
def binIndex (lo hi : α) (bins : Nat) (x : α) : Nat :=
  let i0 := truncNat (((x - lo) / (hi - lo)) * (bins : α))
  let i1 := if i0 = bins then i0 - 1 else i0
  let i2 := if x < edge lo hi bins i1 then i1 - 1 else i1
  if edge lo hi bins (i2 + 1) ≤ x ∧ i2 ≠ bins - 1 then i2 + 1 else i2

def inRange (lo hi x : α) : Bool := decide (lo ≤ x) && decide (x ≤ hi)

/-- bin indices of the kept values, outer edges already widened -/
def binIndices (bins : Nat) (lo hi : α) (xs : List α) : List Nat :=
  (xs.filter (inRange lo hi)).map (binIndex lo hi bins)

/-- `np.histogram(xs, bins=bins, range=(lo, hi))[0]` -/
def hist (bins : Nat) (lo hi : α) (xs : List α) : List Nat :=
  let w := widen lo hi
  let idx := binIndices bins w.1 w.2 xs
  (List.range bins).map (fun k => idx.count k)

/-! ### distances between two count vectors -/

/-- `_hellinger_distance` (both vectors have `_bins` entries) -/
def hellinger (r t : List Nat) : α :=
  let rl : α := ((r.sum : Nat) : α)
  let tl : α := ((t.sum : Nat) : α)
  sqrt (sumF ((List.zip r t).map
    (fun p => sq (sqrt (((p.2 : Nat) : α) / tl) - sqrt (((p.1 : Nat) : α) / rl)))))

/-- `scipy.special.rel_entr` (the overflow branch `x * (log x - log y)` cannot be reached from
    `jensenShannon`, where `DBL_MIN < x / y ≤ 2`; `one / zero` is `+inf` at `Float`) -/
def relEntr (x y : α) : α :=
  if (zero : α) < x ∧ (zero : α) < y then
    let ratio := x / y
    if (half : α) < ratio ∧ ratio < two then x * log1p ((x - y) / y) else x * log ratio
  else if x == zero ∧ (zero : α) ≤ y then zero
  else one / zero

def normalise (c : List Nat) : List α :=
  let s : α := ((c.sum : Nat) : α)
  c.map (fun k => ((k : Nat) : α) / s)

/-- `scipy.spatial.distance.jensenshannon(r, t)` (base e) -/
def jensenShannon (r t : List Nat) : α :=
  let p : List α := normalise r
  let q : List α := normalise t
  let m := List.zipWith (fun a b => (a + b) / two) p q
  let left := sumF (List.zipWith relEntr p m)
  let right := sumF (List.zipWith relEntr q m)
  sqrt ((left + right) / two)

def Divergence.apply : Divergence α → List Nat → List Nat → α
  | .hellinger => HDM.hellinger
  | .js => HDM.jensenShannon
  | .user f => f

/-- `(min, max)` of feature `f` over reference ∪ batch -/
def rangeOf (ref X : List (List α)) (f : Nat) : α × α :=
  let all := colOf ref f ++ colOf X f
  (minOf all, maxOf all)

/-- the two aligned histograms of feature `f` (`_build_histograms` on the reference and on the batch) -/
def histPair (bins : Nat) (ref X : List (List α)) (f : Nat) : List Nat × List Nat :=
  let rg := rangeOf ref X f
  (hist bins rg.1 rg.2 (colOf ref f), hist bins rg.1 rg.2 (colOf X f))

/-- distance of feature `f` -/
def featureDistance (d : Divergence α) (bins : Nat) (ref X : List (List α)) (f : Nat) : α :=
  let h := histPair bins ref X f
  d.apply h.1 h.2

/-- the per-feature distances of `update` -/
def featureDistances (d : Divergence α) (dim bins : Nat) (ref X : List (List α)) : List α :=
  (List.range dim).map (featureDistance d bins ref X)

/-- `current_distance = (1 / dim) * total_distance` -/
def average (dim : Nat) (fd : List α) : α := ((one : α) / (dim : α)) * sumF fd

/-! ### ε, β -/

/-- `self.epsilon[-2]` (the list has at least two entries whenever it is read) -/
def penult (l : List α) : α := l.dropLast.getLast?.getD zero

structure Thr (α : Type) where
  eps : List α
  totalEps : α
  dScale : Nat
  epsHat : α
  stdev : α
  beta : α

/-- `_adaptive_threshold(stat, test_n)`; `tcrit` replaces the call of `scipy.stats.t.ppf` -/
def adaptive (c : Cfg α) (tcrit : α) (since total lambda : Nat) (eps : List α) (totalEps : α) :
    Thr α :=
  let surgery : Bool := since == 3 && c.detectBatch != 3
  let totalEps1 := if surgery then totalEps - eps.head?.getD zero else totalEps
  let eps1 := if surgery then eps.tail else eps
  let d : Nat := if since == 2 && c.detectBatch != 3 then 1 else total - lambda - 1
  let totalEps2 := totalEps1 + penult eps1
  let epsHat := ((one : α) / (d : α)) * totalEps2
  let totalStdev := sumF (eps1.dropLast.map (fun e => sq (e - epsHat)))
  let stdev := sqrt (totalStdev / (d : α))
  let beta := match c.stat with
    | .tstat => epsHat + tcrit * (stdev / sqrt (d : α))
    | .stdev => epsHat + c.signif * stdev
  { eps := eps1, totalEps := totalEps2, dScale := d, epsHat := epsHat, stdev := stdev, beta := beta }

/-- first position of the maximum: `l.index(max(l))` -/
def argmaxFrom : α → Nat → Nat → List α → Nat
  | _, bi, _, [] => bi
  | b, bi, i, x :: xs => if b < x then argmaxFrom x i (i + 1) xs else argmaxFrom b bi (i + 1) xs
def argmaxFirst : List α → Nat
  | [] => 0
  | x :: xs => argmaxFrom x 0 1 xs

/-- does the drift test run on this batch?  (`condition1 or condition2`) -/
def testsDrift (c : Cfg α) (since : Nat) : Bool :=
  (decide (since ≥ 2) && c.detectBatch != 3) || (decide (since ≥ 3) && c.detectBatch == 3)

/-! ### validation -/

/-- `_validate_X` for a 2-D array: more than one row, the established width -/
def validBatch (c : Cfg α) (dim : Option Nat) (X : List (List α)) : Option Nat :=
  match X with
  | [] => none
  | r :: _ =>
    let w := match dim with | some d => d | none => r.length
    if X.length ≥ 2 ∧ X.all (fun r' => r'.length == w) ∧ (c.univariate → w = 1) then some w else none

/-! ### update / reset / set_reference -/

/-- per-feature distances computed by this `update` -/
def stepFd (c : Cfg α) (s : State α) (dim : Nat) (X : List (List α)) : List α :=
  featureDistances c.div dim s.bins s.reference X

/-- `current_distance` of this `update` -/
def stepDist (c : Cfg α) (s : State α) (dim : Nat) (X : List (List α)) : α :=
  average dim (stepFd c s dim X)

/-- `current_epsilon = abs(current_distance - _prev_distance) * 1.0` -/
def stepEps (c : Cfg α) (s : State α) (dim : Nat) (X : List (List α)) : α :=
  absOf (stepDist c s dim X - s.prevDist) * one

/-- `self.epsilon` after the appends of this `update` (bootstrap value first on the 2nd batch) -/
def stepEpsList (c : Cfg α) (o : Oracle α) (s : State α) (dim : Nat) (X : List (List α)) : List α :=
  (if s.since + 1 == 2 && c.detectBatch != 3 then s.eps ++ [o.eps0] else s.eps) ++ [stepEps c s dim X]

/-- the threshold computation of this `update` (when the drift test is due) -/
def stepThr (c : Cfg α) (o : Oracle α) (s : State α) (dim : Nat) (X : List (List α)) : Thr α :=
  adaptive c o.tcrit (s.since + 1) (s.total + 1) s.lambda (stepEpsList c o s dim X) s.totalEps

/-- `feature_epsilons` after this `update` -/
def stepFeatEps (c : Cfg α) (s : State α) (dim : Nat) (X : List (List α)) : Option (List α) :=
  if s.total + 1 > 1 then some (List.zipWith (· - ·) (stepFd c s dim X) s.prevFeat) else s.featEps

/-- the no-drift tail of `update`: remember the distances, append the batch to the reference -/
def appendRef (s : State α) (dist : α) (fd : List α) (X : List (List α)) : State α :=
  { s with prevDist := dist, prevFeat := fd, reference := s.reference ++ X,
           refN := (s.reference ++ X).length, bins := Nat.sqrt (s.reference ++ X).length }

/-- the body of `update` after the optional `reset` and after validation (`dim` established) -/
def updateCore (c : Cfg α) (o : Oracle α) (s : State α) (dim : Nat) (X : List (List α)) : State α :=
  let total := s.total + 1
  let since := s.since + 1
  let fd := stepFd c s dim X
  let dist := stepDist c s dim X
  let featEps := stepFeatEps c s dim X
  let s1 : State α := { s with
    dim := some dim, total := total, since := since, curDist := some dist,
    distances := s.distances ++ [(total, dist)], featEps := featEps }
  if since ≥ 2 then
    let curEps := stepEps c s dim X
    let s2 : State α := { s1 with eps := stepEpsList c o s dim X,
                                  epsValues := s.epsValues ++ [(total, curEps)] }
    if testsDrift c since then
      let th := stepThr c o s dim X
      let s3 : State α := { s2 with eps := th.eps, totalEps := th.totalEps, beta := some th.beta,
                                    thresholds := s.thresholds ++ [(total, th.beta)] }
      if th.beta < curEps then
        let fi := if dim > 1 then
            some { epsilons := featEps.getD [], featDist := fd, argmax := argmaxFirst (featEps.getD []) }
          else s.featInfo
        { s3 with featInfo := fi, drift := .drift, reference := X, lambda := total }
      else appendRef s3 dist fd X
    else appendRef s2 dist fd X
  else appendRef s1 dist fd X

/-- `reset()`; with `detect_batch = 1` the reference is split by position and the second half is
    pushed through `update` as a proxy batch (counted in both counters) -/
def reset (c : Cfg α) (o : Oracle α) (s : State α) : Option (State α) :=
  if c.detectBatch = 1 then
    let h := s.reference.length / 2
    let proxy := s.reference.drop h
    let ref := s.reference.take h
    let s1 : State α := { s with since := 0, drift := .none, reference := ref, refN := ref.length,
                                 bins := Nat.sqrt ref.length, eps := [], totalEps := zero }
    match validBatch c s.dim proxy with
    | some d => some (updateCore c o s1 d proxy)
    | none => none
  else
    some { s with since := 0, drift := .none, refN := s.reference.length,
                  bins := Nat.sqrt s.reference.length, eps := [], totalEps := zero }

/-- `update(X)` -/
def update (c : Cfg α) (o : Oracle α) (s : State α) (X : List (List α)) : Option (State α) :=
  if s.hasRef then
    match (if s.drift = .drift then reset c o s else some s) with
    | none => none
    | some s' =>
      match validBatch c s'.dim X with
      | some d => some (updateCore c o s' d X)
      | none => none
  else none

/-- `set_reference(X)` -/
def setReference (c : Cfg α) (o : Oracle α) (s : State α) (X : List (List α)) : Option (State α) :=
  match validBatch c s.dim X with
  | none => none
  | some d => reset c o { s with dim := some d, hasRef := true, reference := X, lambda := s.total }

def init : State α :=
  { dim := none, hasRef := false, total := 0, since := 0, drift := .none, reference := [], refN := 0,
    bins := 0, eps := [], totalEps := zero, lambda := 0, prevDist := zero, prevFeat := [],
    curDist := none, featEps := none, beta := none, featInfo := none,
    distances := [], epsValues := [], thresholds := [] }

/-- one public call -/
inductive Op (α : Type) where
  | setRef (X : List (List α)) (o : Oracle α)
  | batch (X : List (List α)) (o : Oracle α)

def step (c : Cfg α) (s : State α) : Op α → Option (State α)
  | .setRef X o => setReference c o s X
  | .batch X o => update c o s X

/-- a history of accepted calls (`none` as soon as one is rejected) -/
def run (c : Cfg α) : State α → List (Op α) → Option (State α)
  | s, [] => some s
  | s, op :: ops => match step c s op with
    | some s' => run c s' ops
    | none => none

end
end MV.HDM
