/-
  Model of menelaus/injection: `Injector._preprocess/_postprocess` (injector.py) and the
  eight injectors (feature_manipulation.py, label_manipulation.py, noise.py).

  A data set is a table of cells (`rows : List (List α)`) with an explicit width (a
  0-row ndarray still has a width) and a container tag: `labels = none` is a
  `numpy.ndarray`, `labels = some ls` a `pandas.DataFrame` with column labels `ls`.
  Every random draw of the code (`np.random.choice`, `np.random.dirichlet`,
  `DataFrame.groupby.sample`) is an INPUT of the model and is validated by it
  (`Err.badDraws` when the draws cannot have come from the call).  Python exceptions
  are results (`Err`).  Carrier-polymorphic, no law assumed, import-free.

  Python's builtin `sum` (compensated for Python floats since 3.12, plain left fold for numpy
  scalars) and `np.mean` are modelled as a left fold from 0; `np.random.choice`'s own validation
  of `p` is modelled by its two tests: non-negative (never triggered since the code clamps at 0) and
  `|sum(p) - 1| <= 2^-26` (can trigger when a negative entry was clamped; numpy sums with Kahan's method).
  dtype is not modelled: cells are values of the carrier (the check keeps integer-dtype data away
  from the two arithmetic injectors, whose results numpy truncates back to integers).

  Outside the model (rejected / excluded inputs): negative indices, `from > to`,
  `to > n`, NaN cells, duplicate column labels, data of another container type.
-/
import MenelausVerif.Base.Arith
namespace MV.Inject

/-- a column label / a column argument: Python `int` or `str` -/
inductive Lbl where
  | int (i : Nat)
  | str (s : String)
  deriving DecidableEq, Repr

/-- exceptions the injectors raise (`badDraws` is not a Python exception: the draws handed
    to the model are not draws the call could have made) -/
inductive Err where
  | value | index | key | zeroDiv | badDraws
  deriving DecidableEq, Repr

structure Data (α : Type) where
  /-- `none`: ndarray; `some ls`: DataFrame with these column labels (`Injector._columns`) -/
  labels : Option (List Lbl)
  width : Nat
  rows : List (List α)

variable {α : Type}

/-- rectangular, and as many labels as columns -/
def Data.WF (d : Data α) : Prop :=
  (∀ r ∈ d.rows, r.length = d.width) ∧ (∀ ls, d.labels = some ls → ls.length = d.width)

/-- `data[i, j]` -/
def cell (rows : List (List α)) (i j : Nat) : Option α := (rows[i]?).bind (·[j]?)

/-- `_preprocess(data, col)` followed by the first `ret[..., col]`: a DataFrame column
    argument goes through `columns.get_loc` (`KeyError`), an ndarray column must be an
    integer inside the width (`IndexError`, raised before anything is written). -/
def resolve (d : Data α) (c : Lbl) : Except Err Nat :=
  match d.labels with
  | none =>
    match c with
    | .int i => if i < d.width then .ok i else .error .index
    | .str _ => .error .index
  | some ls =>
    match ls.findIdx? (· == c) with
    | some i => .ok i
    | none => .error .key

/-- `_preprocess(data, col, return_df=True)` followed by `ret[col]` (FeatureCoverInjector):
    an ndarray becomes a frame labelled `0..w-1`; every failure is a `KeyError`. -/
def resolveDf (d : Data α) (c : Lbl) : Except Err Nat :=
  match d.labels with
  | none =>
    match c with
    | .int i => if i < d.width then .ok i else .error .key
    | .str _ => .error .key
  | some ls =>
    match ls.findIdx? (· == c) with
    | some i => .ok i
    | none => .error .key

/-- rows `[f, t)` are rewritten by `g` (which sees the position inside the window), all
    other rows are kept: the slice assignment `ret[from_index:to_index, …] = …` -/
def mapWin (f t : Nat) (g : Nat → List α → List α) (rows : List (List α)) : List (List α) :=
  rows.mapIdx (fun i r => if f ≤ i ∧ i < t then g (i - f) r else r)

/-- `x[from_index:to_index]` -/
def window {β : Type} (f t : Nat) (xs : List β) : List β := (xs.drop f).take (t - f)

/-- `ret[:, c]` -/
def colOf (c : Nat) (rows : List (List α)) : List α := rows.filterMap (·[c]?)

section arith
variable [Add α] [Sub α] [Mul α] [Div α] [Neg α] [LT α] [DecidableLT α] [NatCast α] [BEq α]
  [HasSqrt α]

def zero : α := ((0 : Nat) : α)
def one : α := ((1 : Nat) : α)

/-- Python's `sum(xs)` / the accumulation of `np.mean`: left fold from 0 -/
def sumL (xs : List α) : α := xs.foldl (· + ·) zero

/-- `np.mean(xs)` (`nan` on an empty slice at `Float`) -/
def meanL (xs : List α) : α := sumL xs / ((xs.length : Nat) : α)

/-! ### FeatureShiftInjector -/

/-- `self._delta` -/
def shiftDelta (rows : List (List α)) (f t c : Nat) (shiftFactor alpha : α) : α :=
  (alpha + meanL (colOf c (window f t rows))) * shiftFactor

def featureShift (d : Data α) (f t : Nat) (col : Lbl) (shiftFactor alpha : α) : Except Err (Data α) :=
  match resolve d col with
  | .error e => .error e
  | .ok c =>
    let delta := shiftDelta d.rows f t c shiftFactor alpha
    .ok { d with rows := mapWin f t (fun _ r => r.modify c (· + delta)) d.rows }

/-! ### FeatureSwapInjector -/

/-- `row[[c1, c2]] = row[[c2, c1]]` (right-hand side read before anything is written) -/
def swapCells (c1 c2 : Nat) (r : List α) : List α :=
  match r[c1]?, r[c2]? with
  | some a, some b => (r.set c1 b).set c2 a
  | _, _ => r

def featureSwap (d : Data α) (f t : Nat) (col1 col2 : Lbl) : Except Err (Data α) :=
  match resolve d col1 with
  | .error e => .error e
  | .ok c1 =>
    match resolve d col2 with
    | .error e => .error e
    | .ok c2 => .ok { d with rows := mapWin f t (fun _ => swapCells c1 c2) d.rows }

/-! ### LabelSwapInjector / LabelJoinInjector -/

/-- both index sets are taken first, then `ret[idx1] = class_2; ret[idx2] = class_1`
    (the second assignment wins where both match) -/
def swapLabel (c1 c2 x : α) : α := if x == c2 then c1 else if x == c1 then c2 else x

def labelSwap (d : Data α) (f t : Nat) (col : Lbl) (c1 c2 : α) : Except Err (Data α) :=
  match resolve d col with
  | .error e => .error e
  | .ok c => .ok { d with rows := mapWin f t (fun _ r => r.modify c (swapLabel c1 c2)) d.rows }

def joinLabel (c1 c2 new x : α) : α := if x == c1 || x == c2 then new else x

def labelJoin (d : Data α) (f t : Nat) (col : Lbl) (c1 c2 new : α) : Except Err (Data α) :=
  match resolve d col with
  | .error e => .error e
  | .ok c => .ok { d with rows := mapWin f t (fun _ r => r.modify c (joinLabel c1 c2 new)) d.rows }

/-! ### BrownianNoiseInjector -/

/-- `yi / np.sqrt(steps)` for the drawn `yi ∈ {1, -1}` (`up` = 1 was drawn) -/
def walkStep (steps : Nat) (up : Bool) : α :=
  (if up then one else -one) / sqrt ((steps : Nat) : α)

/-- `w[i] = w[i-1] + yi/sqrt(steps)` for the remaining draws -/
def walkFrom (steps : Nat) : α → List Bool → List α
  | _, [] => []
  | prev, up :: ds =>
    let w := prev + walkStep steps up
    w :: walkFrom steps w ds

/-- `_random_walk(steps, x0)`: `w = ones(steps) * x0`, then the cumulative noise -/
def randomWalk (steps : Nat) (x0 : α) (draws : List Bool) : List α :=
  if steps = 0 then [] else (one * x0) :: walkFrom steps (one * x0) draws

def brownian (d : Data α) (f t : Nat) (col : Lbl) (x0 : α) (draws : List Bool) : Except Err (Data α) :=
  match resolve d col with
  | .error e => .error e
  | .ok c =>
    let steps := t - f
    -- `for i in range(1, steps)`: exactly `steps - 1` draws
    if draws.length ≠ steps - 1 then .error .badDraws
    else
      let w := randomWalk steps x0 draws
      .ok { d with rows := mapWin f t (fun k r =>
              match w[k]? with
              | some v => r.modify c (· + v)
              | none => r) d.rows }

/-! ### LabelProbabilityInjector / LabelDirichletInjector -/

/-- insertion into a strictly increasing list, as `np.unique` orders and de-duplicates -/
def insertU (x : α) : List α → List α
  | [] => [x]
  | y :: ys => if x < y then x :: y :: ys else if y < x then y :: insertU x ys else y :: ys

/-- `np.unique(xs)` -/
def unique (xs : List α) : List α := xs.foldr insertU []

/-- `k in class_probabilities` -/
def keyIn (cp : List (α × α)) (k : α) : Bool := cp.any (fun e => e.1 == k)

/-- `class_probabilities[k]` (the code only reads keys it has filled in) -/
def probOf (cp : List (α × α)) (k : α) : α :=
  match cp.find? (fun e => e.1 == k) with
  | some e => e.2
  | none => zero

/-- `set(xs) == set(ys)` -/
def sameSet (xs ys : List α) : Bool := xs.all (fun x => ys.contains x) && ys.all (fun y => xs.contains y)

def cellIs (rows : List (List α)) (c : Nat) (cls : α) (i : Nat) : Bool :=
  match cell rows i c with
  | some v => v == cls
  | none => false

/-- `np.where(ret[:, c] == cls)[0]` restricted to `[f, t)` -/
def classIdx (rows : List (List α)) (f t c : Nat) (cls : α) : List Nat :=
  (List.range rows.length).filter (fun i => decide (f ≤ i ∧ i < t) && cellIs rows c cls i)

/-- the completed dictionary: unspecified classes share what is missing to one -/
def completeProbs (cp : List (α × α)) (undef : List α) : List (α × α) :=
  cp ++ undef.map (fun uc => (uc, (one - sumL (cp.map (·.2))) / ((undef.length : Nat) : α)))

/-- what `np.random.choice` is called with: `sample_idxs_grouped` and `_p_distribution` -/
structure Plan (α : Type) where
  grouped : List Nat
  p : List α

/-- classes (all rows), their window members, per-sample probability before the leftover -/
def groupsOf (rows : List (List α)) (f t c : Nat) : List (α × List Nat) :=
  (unique (colOf c rows)).map (fun cls => (cls, classIdx rows f t c cls))

def rawP (full : List (α × α)) (groups : List (α × List Nat)) : List α :=
  groups.flatMap (fun g => List.replicate g.2.length (probOf full g.1 / ((g.2.length : Nat) : α)))

/-- `atol` of the acceptance test: `1e-12` (at `Float`, `1 / 10^12` is the double nearest to `1e-12`) -/
def tol : α := one / ((1000000000000 : Nat) : α)

/-- `total > 1.0 and not np.isclose(total, 1.0, rtol=0, atol=1e-12)`: reject iff the specified probabilities
    sum to more than one and `|sum - 1| > 1e-12` -/
def rejectSum (s : α) : Prop := one < s ∧ tol < absOf (s - one)

instance (s : α) : Decidable (rejectSum s) := inferInstanceAs (Decidable (_ ∧ _))

def probPlan (rows : List (List α)) (f t c : Nat) (cp : List (α × α)) : Except Err (Plan α) :=
  let classes := unique (colOf c rows)
  let undef := classes.filter (fun k => !keyIn cp k)
  if rejectSum (sumL (cp.map (·.2))) then .error .value
  else if !sameSet classes (cp.map (·.1) ++ undef) then .error .value
  else
    let groups := groupsOf rows f t c
    let grouped := groups.flatMap (·.2)
    let p0 := rawP (completeProbs cp undef) groups
    if grouped.isEmpty then .ok ⟨[], []⟩
    else
      let leftover := (one - sumL p0) / ((p0.length : Nat) : α)
      -- `max(p + p_leftover, 0.0)`: the first argument unless the second is greater
      .ok ⟨grouped, p0.map (fun x => pyMax (x + leftover) zero)⟩

/-- `ret[from:to] = ret[sample_idxs]` (right-hand side is a copy of the old rows) -/
def resampleRows (rows : List (List α)) (f t : Nat) (sample : List Nat) : List (List α) :=
  mapWin f t (fun k r =>
    match (sample[k]?).bind (rows[·]?) with
    | some r' => r'
    | none => r) rows

/-- `np.random.choice` rejects `p` when `|sum(p) - 1| > sqrt(eps) = 2^-26` -/
def choiceTol : α := one / ((67108864 : Nat) : α)

def labelProb (d : Data α) (f t : Nat) (col : Lbl) (cp : List (α × α)) (sample : List Nat) :
    Except Err (Data α × Plan α) :=
  match resolve d col with
  | .error e => .error e
  | .ok c =>
    match probPlan d.rows f t c cp with
    | .error e => .error e
    | .ok plan =>
      if plan.grouped.isEmpty then
        -- empty window: nothing is drawn, the data is returned unchanged
        if sample.isEmpty then .ok (d, plan) else .error .badDraws
      else if plan.p.any (· < zero) then .error .value       -- raised by `np.random.choice`
      else if choiceTol < absOf (sumL plan.p - one) then .error .value   -- "probabilities do not sum to 1"
      else if sample.length ≠ t - f ∨ !sample.all (fun s => plan.grouped.contains s) then .error .badDraws
      else .ok ({ d with rows := resampleRows d.rows f t sample }, plan)

/-- `LabelDirichletInjector`: the Dirichlet vector (an input) becomes the dictionary -/
def labelDirichlet (d : Data α) (f t : Nat) (col : Lbl) (keys : List α) (dir : List α)
    (sample : List Nat) : Except Err (Data α × Plan α) :=
  if dir.length ≠ keys.length then .error .badDraws
  else labelProb d f t col (keys.zip dir) sample

/-! ### FeatureCoverInjector -/

/-- row numbers of one group of `ret.groupby(col)` -/
def groupIdx (rows : List (List α)) (c : Nat) (key : α) : List Nat :=
  (List.range rows.length).filter (fun i => cellIs rows c key i)

/-- positions drawn inside one group: `n` distinct positions below the group size -/
def validDraw (n size : Nat) (ds : List Nat) : Bool :=
  ds.length == n && ds.all (· < size) && decide ds.Nodup

/-- the rows `grp_indices[grp_sample]` of one group, hidden column dropped -/
def takeGroup (rows : List (List α)) (c : Nat) (idx : List Nat) (ds : List Nat) : List (List α) :=
  ds.filterMap (fun j => ((idx[j]?).bind (rows[·]?)).map (·.eraseIdx c))

def featureCover (d : Data α) (col : Lbl) (sampleSize : Nat) (draws : List (List Nat)) :
    Except Err (Data α) :=
  match resolveDf d col with
  | .error e => .error e
  | .ok c =>
    let keys := unique (colOf c d.rows)
    if keys.length = 0 then .error .zeroDiv             -- `sample_size // 0`
    else
      let n := sampleSize / keys.length
      let groups := keys.map (groupIdx d.rows c)
      if groups.any (fun g => g.length < n) then .error .value   -- larger sample than population
      else if draws.length ≠ groups.length ∨
          !(List.zipWith (fun g ds => validDraw n g.length ds) groups draws).all id then .error .badDraws
      else
        .ok { labels := d.labels.map (·.eraseIdx c)
              width := d.width - 1
              rows := (List.zipWith (takeGroup d.rows c) groups draws).flatten }

end arith
end MV.Inject
