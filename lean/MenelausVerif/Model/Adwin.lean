/-
  Model of menelaus/change_detection/adwin.py (`ADWIN.update`, `_add_sample`,
  `_compress_buckets`, `_shrink_window`, `_check_epsilon`, `_remove_last`, `mean`,
  `variance`) and menelaus/concept_drift/adwin_accuracy.py (`ADWINAccuracy.update`).
  Carrier-polymorphic, import-free.  Float operation order follows the code.

  Domain of the configuration (what the real code needs to run at all):
  `max_buckets ≥ 1` (with 0 the merge reads index 1 of a 1-element array),
  `new_sample_thresh ≥ 1` (`%` by zero raises).  The property additionally
  assumes `subwindow_size_thresh ≥ 1` (with 0 a split with an empty newer part
  divides 0/0) and `delta ∈ (0, 1]`.

  The bucket rows of the linked list are a `List` of rows, head row (`2^0`
  samples per bucket) first, each row oldest bucket first, each bucket
  `(total, variance)`.  The numpy arrays of a row have `max_buckets + 1` slots;
  `Props/C03.lean` (`rows_le`) proves that after every update each row of the model holds at most
  `max_buckets` buckets, so a row never needs more than its `max_buckets + 1` slots.
-/
import MenelausVerif.Base.Drift
import MenelausVerif.Base.Arith
namespace MV.Adwin

structure Cfg (α : Type) where
  delta : α
  maxBuckets : Nat
  newSampleThresh : Nat
  windowThresh : Nat
  subThresh : Nat
  conservative : Bool

/-- a bucket: `(bucket_totals[k], bucket_variances[k])` -/
abbrev Bucket (α : Type) := α × α
/-- `_bucket_row_list`: head row first; a row lists its buckets oldest first -/
abbrev Rows (α : Type) := List (List (Bucket α))

structure State (α : Type) where
  rows : Rows α
  /-- `_window_size` -/
  W : Nat
  /-- `total_samples` -/
  total : Nat
  /-- `_curr_total` -/
  sum : α
  /-- `_curr_variance` (sum of squared deviations, not yet divided by `W`) -/
  var : α
  drift : Drift
  recs : Recs

variable {α : Type} [Add α] [Sub α] [Mul α] [Div α] [Neg α] [LT α] [DecidableLT α]
  [NatCast α] [HasSqrt α] [HasLogExp α]

def init : State α :=
  { rows := [[]], W := 0, total := 0, sum := ((0 : Nat) : α), var := ((0 : Nat) : α),
    drift := .none, recs := Recs.empty }

/-! ### `_compress_buckets` -/

/-- the bucket that replaces the two oldest buckets of row `i` (Chan et al.) -/
def merge (i : Nat) (b0 b1 : Bucket α) : Bucket α :=
  let n : α := ((2 ^ i : Nat) : α)
  let mean1 := b0.1 / n
  let mean2 := b1.1 / n
  (b0.1 + b1.1, b0.2 + b1.2 + n * (mean1 - mean2) * (mean1 - mean2) / ((2 : Nat) : α))

/-- `row.add_bucket` of the bucket handed down by the previous row, if any -/
def addCarry (carry : Option (Bucket α)) (row : List (Bucket α)) : List (Bucket α) :=
  match carry with
  | none => row
  | some b => row ++ [b]

/-- the cascade from row `i` on; `carry` is the merged bucket of row `i-1` that
    `next_bucket_row.add_bucket` appends (a new tail row is created when there is
    no next row).  A row is full at `max_buckets + 1`; the loop stops at the
    first row that is not full. -/
def compress (M : Nat) : Nat → Option (Bucket α) → Rows α → Rows α
  | _, none, [] => []
  | _, some b, [] => [[b]]
  | i, carry, row :: rest =>
    let row1 := addCarry carry row
    if row1.length = M + 1 then
      match row1 with
      | b0 :: b1 :: row' => row' :: compress M (i + 1) (some (merge i b0 b1)) rest
      | _ => row1 :: rest
    else row1 :: rest

/-- `head.add_bucket(x, 0)` -/
def pushHead (x : α) : Rows α → Rows α
  | [] => [[(x, ((0 : Nat) : α))]]     -- unreachable: the row list is never empty (`Props.C03`, `SInv`)
  | row :: rest => (row ++ [(x, ((0 : Nat) : α))]) :: rest

/-- `_add_sample` (called after `_window_size += 1`, so `s.W` is the new size) -/
def addSample (M : Nat) (s : State α) (x : α) : State α :=
  let rows1 := pushHead x s.rows
  let var1 :=
    if s.W > 1 then
      s.var + ((s.W - 1 : Nat) : α) * (x - s.sum / ((s.W - 1 : Nat) : α))
                * (x - s.sum / ((s.W - 1 : Nat) : α)) / ((s.W : Nat) : α)
    else s.var
  { s with rows := compress M 0 none rows1, var := var1, sum := s.sum + x }

/-! ### `_remove_last` -/

/-- remove every trailing empty row -/
def trimAll : Rows α → Rows α
  | [] => []
  | r :: rest =>
    match trimAll rest with
    | [] => if r.isEmpty then [] else [r]
    | rest' => r :: rest'

/-- `while size > 1 and tail.bucket_count == 0: remove_tail()`: trailing empty rows go, the head row stays -/
def trimTail : Rows α → Rows α
  | [] => []
  | r :: rest => r :: trimAll rest

/-- drop the oldest bucket of the tail row; an emptied tail row is removed -/
def dropOldest : Rows α → Rows α
  | [] => []
  | [r] =>
    match r with
    | [] => [r]          -- unreachable (`bucket_count` would become -1): the tail row is never empty
    | [_] => []          -- `bucket_count == 0`: `remove_tail()`
    | _ :: r' => [r']
  | r :: rest => r :: dropOldest rest

/-- what the code reads as bucket 0 of the tail row (zero-filled slots when the row is empty) -/
def oldest (rows : Rows α) : Bucket α :=
  match rows.getLast? with
  | some (b :: _) => b
  | _ => (((0 : Nat) : α), ((0 : Nat) : α))

/-- `_remove_last`.  `W - n` is natural-number subtraction; `Props.C03.cut_no_underflow`
    shows `n < W` whenever the code gets here, so it agrees with Python's. -/
def removeLast (s : State α) : State α :=
  let b := oldest s.rows
  let n := 2 ^ (s.rows.length - 1)
  let W' := s.W - n
  let sum' := s.sum - b.1
  let meanCurr := b.1 / ((n : Nat) : α)
  let var' := s.var - (b.2 + ((n * W' : Nat) : α) * (meanCurr - sum' / ((W' : Nat) : α))
                * (meanCurr - sum' / ((W' : Nat) : α)) / ((n + W' : Nat) : α))
  let rows1 := dropOldest s.rows
  -- `remove_tail()` happened iff the row count went down; only then the `while` runs
  let rows2 := if rows1.length < s.rows.length then trimTail rows1 else rows1
  { s with rows := rows2, W := W', sum := sum', var := var' }

/-! ### `_check_epsilon` -/

def variance (s : State α) : α :=
  if s.W = 0 then ((0 : Nat) : α) else s.var / ((s.W : Nat) : α)

def mean (s : State α) : α :=
  if s.W = 0 then ((0 : Nat) : α) else s.sum / ((s.W : Nat) : α)

/-- `1/(n0 - k + 1) + 1/(n1 - k + 1)` (only evaluated when `n0, n1 ≥ k`) -/
def nHarmonic (k n0 n1 : Nat) : α :=
  ((1 : Nat) : α) / ((n0 - k + 1 : Nat) : α) + ((1 : Nat) : α) / ((n1 - k + 1 : Nat) : α)

/-- `eps_cut` of `_check_epsilon` for window variance `v`, window size `W` -/
def epsCut (c : Cfg α) (W : Nat) (v : α) (n0 n1 : Nat) : α :=
  let nh : α := nHarmonic c.subThresh n0 n1
  if c.conservative then
    let dpd := log (((4 : Nat) : α) * log ((W : Nat) : α) / c.delta)
    sqrt ((((1 : Nat) : α) / ((2 : Nat) : α)) * nh * dpd)
  else
    let dpd := log (((2 : Nat) : α) * log ((W : Nat) : α) / c.delta)
    sqrt ((((2 : Nat) : α) * nh) * v * dpd)
      + ((1 : Nat) : α) * (((2 : Nat) : α) / ((3 : Nat) : α)) * nh * dpd

/-- `1.0 * (total0/n0 - total1/n1)` -/
def windowDiff (n0 : Nat) (t0 : α) (n1 : Nat) (t1 : α) : α :=
  ((1 : Nat) : α) * (t0 / ((n0 : Nat) : α) - t1 / ((n1 : Nat) : α))

/-- `_check_epsilon`: `absolute(window_diff) > eps_cut` (False when either side is NaN) -/
def checkEps (c : Cfg α) (s : State α) (n0 : Nat) (t0 : α) (n1 : Nat) (t1 : α) : Bool :=
  decide (epsCut c s.W (variance s) n0 n1 < absOf (windowDiff n0 t0 n1 t1))

/-! ### `_shrink_window` -/

/-- the traversal order of one scan: tail row → head row, inside a row index 0 upwards,
    i.e. oldest bucket first; each bucket with its row position -/
def flatFrom : Nat → Rows α → List (Nat × Bucket α)
  | _, [] => []
  | i, row :: rest => flatFrom (i + 1) rest ++ row.map (fun b => (i, b))

def flat (rows : Rows α) : List (Nat × Bucket α) := flatFrom 0 rows

/-- one scan of the inner `while`/`for` loops from the state `(n0, n1, t0, t1)`;
    `true` iff it reaches an admissible split whose `_check_epsilon` holds.
    The scan ends without a hit at the youngest bucket (last bucket of row 0);
    when row 0 is empty (possible with `max_buckets = 1`) the last bucket is
    tested like any other, with an empty newer part. -/
def scan (c : Cfg α) (s : State α) : Nat → Nat → α → α → List (Nat × Bucket α) → Bool
  | _, _, _, _, [] => false
  | n0, n1, t0, t1, (i, b) :: rest =>
    let n0' := n0 + 2 ^ i
    let n1' := n1 - 2 ^ i
    let t0' := t0 + b.1
    let t1' := t1 - b.1
    if i = 0 ∧ rest.isEmpty then false
    else if c.subThresh ≤ n0' ∧ c.subThresh ≤ n1' ∧ checkEps c s n0' t0' n1' t1' then true
    else scan c s n0' n1' t0' t1' rest

/-- does a scan of the current window find a cut? -/
def hit (c : Cfg α) (s : State α) : Bool :=
  scan c s 0 s.W ((0 : Nat) : α) s.sum (flat s.rows)

/-- the body executed on a hit: `drift_state = "drift"`, `_remove_last()`, `retraining_recs` -/
def cut (s : State α) : State α :=
  let s' := removeLast s
  { s' with drift := .drift, recs := (some (s'.total - s'.W), some (s'.total - 1)) }

/-- the outer `while start_from_empty_subwindow` loop.  Every hit removes one
    bucket, so the number of buckets is enough fuel (`Props.C03.shrink_settles`).
    (The code's guard `_window_size > 0` before `_remove_last` always holds here:
    `W` was incremented in this update and a cut leaves `n1 ≥ 1` samples.) -/
def shrinkLoop (c : Cfg α) : Nat → State α → State α
  | 0, s => s
  | fuel + 1, s => if hit c s then shrinkLoop c fuel (cut s) else s

/-- the schedule guard of `_shrink_window` -/
def scheduled (c : Cfg α) (s : State α) : Bool :=
  s.total % c.newSampleThresh = 0 ∧ s.W > c.windowThresh

def shrink (c : Cfg α) (s : State α) : State α :=
  if scheduled c s then shrinkLoop c (flat s.rows).length s else s

/-! ### `update` -/

/-- `reset()`: only the drift state and the recommendations -/
def reset (s : State α) : State α := { s with drift := .none, recs := Recs.empty }

def step (c : Cfg α) (s : State α) (x : α) : State α :=
  let s0 := if s.drift ≠ .none then reset s else s
  let s1 := { s0 with total := s0.total + 1, W := s0.W + 1 }
  shrink c (addSample c.maxBuckets s1 x)

def run (c : Cfg α) (xs : List α) : State α := xs.foldl (step c) init

end MV.Adwin

/-! ### ADWINAccuracy -/
namespace MV.AdwinAcc
open MV.Adwin

variable {α : Type} [Add α] [Sub α] [Mul α] [Div α] [Neg α] [LT α] [DecidableLT α]
  [NatCast α] [HasSqrt α] [HasLogExp α]

/-- `int(y_true == y_pred)` -/
def indicator {β : Type} [DecidableEq β] (yt yp : β) : α :=
  if yt = yp then ((1 : Nat) : α) else ((0 : Nat) : α)

/-- `ADWINAccuracy.update(y_true, y_pred)`: ADWIN, with the constructor parameters
    given, on the agreement indicator -/
def step {β : Type} [DecidableEq β] (c : Cfg α) (s : State α) (y : β × β) : State α :=
  Adwin.step c s (indicator y.1 y.2)

def run {β : Type} [DecidableEq β] (c : Cfg α) (ys : List (β × β)) : State α :=
  ys.foldl (step c) init

end MV.AdwinAcc
