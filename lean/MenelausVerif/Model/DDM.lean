/-
  Model of menelaus/concept_drift/ddm.py (`DDM.update`, `reset`, `_increment_retraining_recs`).
  Carrier-polymorphic, import-free.  One `Bool` per sample: `true` = the prediction
  was wrong (`classifier_result = int(y_pred != y_true) = 1`).

  `_error_rate_min = _error_std_min = float("inf")` is modelled as `mins = none`:
  `rate + std <= inf + inf` is true for the (always finite, never NaN) running
  estimates, and `rate + std >= inf + …` is false.
-/
import MenelausVerif.Base.Drift
import MenelausVerif.Base.Arith
import MenelausVerif.Model.ErrRecs
namespace MV.DDM

structure Cfg (α : Type) where
  nThreshold : Nat
  warningScale : α
  driftScale : α

structure State (α : Type) where
  total : Nat
  since : Nat
  drift : Drift
  rate : α
  std : α
  /-- `(_error_rate_min, _error_std_min)`; `none` = both still `inf` -/
  mins : Option (α × α)
  recs : Recs

variable {α : Type} [Add α] [Sub α] [Mul α] [Div α] [LE α] [DecidableLE α] [NatCast α] [HasSqrt α]

def zero : α := ((0 : Nat) : α)

def init : State α :=
  { total := 0, since := 0, drift := .none, rate := zero, std := zero, mins := none, recs := Recs.empty }

/-- `DDM.reset` (the total counter survives) -/
def reset (s : State α) : State α :=
  { s with since := 0, drift := .none, rate := zero, std := zero, mins := none, recs := Recs.empty }

/-- `classifier_result` as a number -/
def bit (err : Bool) : α := if err then ((1 : Nat) : α) else ((0 : Nat) : α)

/-- new running error rate: `rate + (x - rate) / n` -/
def newRate (rate : α) (x : α) (n : Nat) : α := rate + (x - rate) / (n : α)

/-- new running "std": `sqrt((std + (x - rate') * (x - rate)) / n)` -/
def newStd (std rate rate' : α) (x : α) (n : Nat) : α :=
  sqrt ((std + (x - rate') * (x - rate)) / (n : α))

/-- minimum tracking: `if rate + std <= rate_min + std_min: (rate_min, std_min) = (rate, std)` -/
def newMins (mins : Option (α × α)) (rate std : α) : α × α :=
  match mins with
  | none => (rate, std)
  | some (pm, sm) => if rate + std ≤ pm + sm then (rate, std) else (pm, sm)

/-- the threshold test: `rate + std >= rate_min + scale * std` (the *current* std, as in the code) -/
def decide3 (c : Cfg α) (rate std pm : α) : Drift :=
  if pm + c.driftScale * std ≤ rate + std then .drift
  else if pm + c.warningScale * std ≤ rate + std then .warning
  else .none

/-- the part of `update` after the optional reset -/
def core (c : Cfg α) (s : State α) (err : Bool) : State α :=
  let total := s.total + 1
  let since := s.since + 1
  let x : α := bit err
  let rate := newRate s.rate x since
  let std := newStd s.std s.rate rate x since
  if since < c.nThreshold then
    { s with total := total, since := since, rate := rate, std := std }
  else
    let m := newMins s.mins rate std
    let st := decide3 c rate std m.1
    { total := total, since := since, drift := st, rate := rate, std := std, mins := some m,
      recs := incRecsFirst st s.total s.recs }

/-- `DDM.update(y_true, y_pred)` with `err = (y_pred != y_true)` -/
def step (c : Cfg α) (s : State α) (err : Bool) : State α :=
  core c (if s.drift = .drift then reset s else s) err

def run (c : Cfg α) (xs : List Bool) : State α := xs.foldl (step c) init

end MV.DDM
