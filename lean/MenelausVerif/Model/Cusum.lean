/-
  Model of menelaus/change_detection/cusum.py (`CUSUM.update`, `reset`).
  Carrier-polymorphic, import-free.

  Representation choices (everything else is a line-by-line transcription):
  * `_stream` (never cleared by the code) is kept newest-first in `hist`;
    `_stream[-burn_in:]` is `window burnIn hist`.
  * `_upper_bound` / `_lower_bound` are lists the code only ever reads at index
    `samples_since_reset - 1` (before appending) and `samples_since_reset` (after
    appending), i.e. at their last element; the model keeps that last element
    (`sh`, `sl`).  The index is the last element as long as no update raised; an
    update that raised leaves the lists one short, and every later update then
    raises again *before* it reads them (see `core`), so nothing is lost.
  * an update that raises is modelled by the `Outcome` next to the state the
    detector is left in (`super().update` and `_stream.append` have happened).
-/
import MenelausVerif.Base.Drift
import MenelausVerif.Base.Arith
namespace MV.Cusum

/-- `direction`: `None`, `"positive"`, `"negative"` -/
inductive Dir where
  | both | positive | negative
  deriving DecidableEq, Repr

/-- how `update` returned: normally, with the "Standard deviation is 0" `ValueError`, or with
    another exception (`TypeError` from `/ None`, `IndexError` for `burn_in = 0` without target) -/
inductive Outcome where
  | ok | valueError | otherError
  deriving DecidableEq, Repr

structure Cfg (α : Type) where
  target0 : Option α
  sd0 : Option α
  burnIn : Nat
  delta : α
  threshold : α
  dir : Dir

structure State (α : Type) where
  total : Nat
  since : Nat
  drift : Drift
  /-- public attribute `target` -/
  target : Option α
  /-- public attribute `sd_hat` -/
  sd : Option α
  /-- last element of `_upper_bound` -/
  sh : α
  /-- last element of `_lower_bound` -/
  sl : α
  /-- `_stream`, newest observation first -/
  hist : List α

variable {α : Type} [Add α] [Sub α] [Mul α] [Div α] [LT α] [DecidableLT α] [NatCast α] [BEq α]
  [HasSqrt α]

def zero : α := ((0 : Nat) : α)

def sum (xs : List α) : α := xs.foldl (· + ·) zero

/-- `np.mean` -/
def mean (xs : List α) : α := sum xs / (xs.length : α)

/-- `np.std` (population standard deviation, `ddof = 0`) -/
def std (xs : List α) : α :=
  let m := mean xs
  sqrt (mean (xs.map (fun x => (x - m) * (x - m))))

/-- `_stream[-b:]` in chronological order (`-0:` is the whole list) -/
def window (b : Nat) (hist : List α) : List α :=
  if b = 0 then hist.reverse else (hist.take b).reverse

def init (c : Cfg α) : State α :=
  { total := 0, since := 0, drift := .none, target := c.target0, sd := c.sd0,
    sh := zero, sl := zero, hist := [] }

/-- `CUSUM.reset()` called by the user between updates: the epoch counter, the drift state and the
    two cumulative sums restart; `target` / `sd_hat` and the retained stream are NOT touched (the
    re-estimation belongs to the update that follows an alarm, `prep`) -/
def reset (s : State α) : State α :=
  { s with since := 0, drift := .none, sh := zero, sl := zero }

/-- start of `update` when the previous update alarmed: re-estimate `target`, `sd_hat` from the
    last `burn_in` observations of the whole stream, then `reset()` -/
def prep (c : Cfg α) (s : State α) : State α :=
  if s.drift = .drift then
    { s with target := some (mean (window c.burnIn s.hist)),
             sd := some (std (window c.burnIn s.hist)),
             since := 0, drift := .none, sh := zero, sl := zero }
  else s

/-- the threshold test in the configured direction -/
def alarm (c : Cfg α) (sh sl : α) : Bool :=
  match c.dir with
  | .both => decide (c.threshold < sh) || decide (c.threshold < sl)
  | .positive => decide (c.threshold < sh)
  | .negative => decide (c.threshold < sl)

/-- "check alarm if past burn in" -/
def finish (c : Cfg α) (s : State α) : State α :=
  if s.since > c.burnIn ∧ alarm c s.sh s.sl = true then { s with drift := .drift } else s

def sdIsZero : Option α → Bool
  | some d => d == zero
  | none => false

/-- one-sided statistics after the observation with standardised value `z` -/
def upper (delta sh z : α) : α := pyMax zero (sh + z - delta)
def lower (delta sl z : α) : α := pyMax zero (sl - delta - z)

/-- target unknown and still inside the burn-in: "cannot compute s_h/s_l so set to 0" -/
def early (c : Cfg α) (s : State α) : Bool := s.target.isNone && decide (s.since + 1 < c.burnIn)

/-- target unknown and burn-in just completed: estimate from the whole stream -/
def estNow (c : Cfg α) (s : State α) : Bool := s.target.isNone && decide (s.since + 1 = c.burnIn)

/-- the detector after `super().update`, `_stream.append(X)`, the zero padding inside an
    unknown-target burn-in and the first estimation of `target` / `sd_hat` -/
def base (c : Cfg α) (s : State α) (x : α) : State α :=
  { total := s.total + 1, since := s.since + 1, drift := s.drift,
    target := if estNow c s = true then some (mean (x :: s.hist).reverse) else s.target,
    sd := if estNow c s = true then some (std (x :: s.hist).reverse) else s.sd,
    sh := if early c s = true then zero else s.sh,
    sl := if early c s = true then zero else s.sl,
    hist := x :: s.hist }

/-- "find new upper and lower cusum stats" with known constants, then the alarm check -/
def advance (c : Cfg α) (b : State α) (x t d : α) : State α :=
  finish c { b with sh := upper c.delta b.sh ((x - t) / d), sl := lower c.delta b.sl ((x - t) / d) }

/-- `update` after the optional re-estimation / reset -/
def core (c : Cfg α) (s : State α) (x : α) : State α × Outcome :=
  let b := base c s x
  -- "if sd = 0 then no variance in stream and no drift -- raise error"
  if sdIsZero b.sd = true ∧ b.since > c.burnIn then (b, .valueError)
  else match b.target, b.sd with
    | none, _ =>
      -- nothing appended; past the burn-in the alarm check then indexes past the end of the lists
      if b.since > c.burnIn then (b, .otherError) else (b, .ok)
    | some _, none => (b, .otherError)        -- `/ None`
    | some t, some d => (advance c b x t d, .ok)

/-- `CUSUM.update(X)` -/
def step (c : Cfg α) (s : State α) (x : α) : State α × Outcome :=
  core c (prep c s) x

/-- feed a history; `none` as soon as an update raises -/
def runFrom (c : Cfg α) (s : State α) : List α → Option (State α)
  | [] => some s
  | x :: xs =>
    match step c s x with
    | (s', .ok) => runFrom c s' xs
    | _ => none

def run (c : Cfg α) (xs : List α) : Option (State α) := runFrom c (init c) xs

end MV.Cusum
