/-
  Model of the input validation of menelaus/detector.py
  (`StreamingDetector._validate_X/_validate_y/_validate_input`, the same three
  methods of `BatchDetector`) and of the per-detector wrappers around it
  (univariate guard of ADWIN / CUSUM / PageHinkley, which restores the prior
  names / dimension; CDBD's guard, which runs before validation), as the code is
  after the F8a–c / F9 fix commits.  The batch base still lacks the
  "DataFrame after array-established width" check (F8d): modelled as it is.

  Inputs are abstracted to container kind, shape, column names and the row-major
  list of values; the values are never inspected (validation only reshapes), so
  the model is polymorphic in their type.  Import-free.
-/
import MenelausVerif.Base.Drift
namespace MV.Validate

/-- which base class: `StreamingDetector` or `BatchDetector` -/
inductive Mode where
  | stream | batch
  deriving DecidableEq, Repr

/-- the 2-D ndarray handed on by `_validate_X`: shape and row-major values -/
structure Arr (α : Type) where
  rows : Nat
  cols : Nat
  vals : List α
  deriving DecidableEq, Repr

/-- what a caller may pass as `X` / `y`.
    `list` is a flat Python list, `nested r c` a list of `r ≥ 1` lists of length `c`
    (`np.array` makes it an `(r, c)` array), `dataframe names r` has `names.length`
    columns and `r` rows.  `vals` is the row-major flattening. -/
inductive Input (α : Type) where
  | scalar (v : α)
  | list (vs : List α)
  | nested (r c : Nat) (vs : List α)
  | ndarray1d (vs : List α)
  | ndarray2d (r c : Nat) (vs : List α)
  | series (vs : List α)
  | dataframe (names : List String) (r : Nat) (vs : List α)
  deriving DecidableEq, Repr

/-- `np.shape(X)` -/
inductive Shape where
  | s0
  | s1 (n : Nat)
  | s2 (r c : Nat)
  deriving DecidableEq, Repr

namespace Input
variable {α : Type}

def shape : Input α → Shape
  | scalar _ => .s0
  | list vs => .s1 vs.length
  | nested r c _ => .s2 r c
  | ndarray1d vs => .s1 vs.length
  | ndarray2d r c _ => .s2 r c
  | series vs => .s1 vs.length
  | dataframe names r _ => .s2 r names.length

def vals : Input α → List α
  | scalar v => [v]
  | list vs => vs
  | nested _ _ vs => vs
  | ndarray1d vs => vs
  | ndarray2d _ _ vs => vs
  | series vs => vs
  | dataframe _ _ vs => vs

/-- `X.columns` when `isinstance(X, DataFrame)` -/
def names? : Input α → Option (List String)
  | dataframe names _ _ => some names
  | _ => none

/-- number of elements of `np.array(y)` -/
def size (x : Input α) : Nat :=
  match x.shape with
  | .s0 => 1
  | .s1 n => n
  | .s2 r c => r * c

end Input

variable {α : Type}

/-- the array after `np.array(X)` and the reshape of 0-D and 1-D data:
    `reshape(1, -1)` (a row) for streaming, `reshape(-1, 1)` (a column) for batch -/
def coerceX (m : Mode) (x : Input α) : Arr α :=
  match x.shape with
  | .s0 => ⟨1, 1, x.vals⟩
  | .s1 n =>
    match m with
    | .stream => ⟨1, n, x.vals⟩
    | .batch => ⟨n, 1, x.vals⟩
  | .s2 r c => ⟨r, c, x.vals⟩

inductive Reason where
  | names | width | rows | univariate | yobs | ycols
  deriving DecidableEq, Repr

def Reason.toStr : Reason → String
  | .names => "names" | .width => "width" | .rows => "rows"
  | .univariate => "univariate" | .yobs => "yobs" | .ycols => "ycols"

/-- `_input_cols`, `_input_col_dim` -/
structure VState where
  cols : Option (List String) := none
  dim : Option Nat := none
  deriving DecidableEq, Repr

def VState.init : VState := {}

/-- the final row-count test: `shape[0] != 1` rejects (stream), `shape[0] <= 1` rejects (batch) -/
def rowsOk : Mode → Nat → Bool
  | .stream, r => r == 1
  | .batch, r => decide (1 < r)

/-- the container-specific part of `_validate_X`: the candidate `(input_cols, input_col_dim)`
    or the reason of the `raise`.  `Index.equals` is order-sensitive list equality. -/
def candidate (m : Mode) (s : VState) (x : Input α) : Except Reason VState :=
  match x.names? with
  | some names =>
    match s.cols with
    | none =>
      let cand : VState := { cols := some names, dim := some names.length }
      match m, s.dim with
      | .stream, some d => if names.length ≠ d then .error .width else .ok cand
      | _, _ => .ok cand          -- batch: no width check here (F8d)
    | some cs => if names = cs then .ok s else .error .names
  | none =>
    match s.dim with
    | none => .ok { s with dim := some (coerceX m x).cols }
    | some d => if (coerceX m x).cols ≠ d then .error .width else .ok s

/-- `_validate_X`: state after the call and either the reason of the ValueError or the
    validated array.  The candidate is committed only after the row test. -/
def validateX (m : Mode) (s : VState) (x : Input α) : VState × Except Reason (Arr α) :=
  match candidate m s x with
  | .error r => (s, .error r)
  | .ok cand =>
    if rowsOk m (coerceX m x).rows then (cand, .ok (coerceX m x)) else (s, .error .rows)

/-- `_validate_y`.  Streaming: `np.array(y).ravel()` must have exactly one element.
    Batch: 0-D and 1-D data is reshaped to ONE ROW `(1, n)` and then rejected because it has one
    row; 2-D data needs `shape[0] != 1` and exactly one column. -/
def validateY : Mode → Input α → Except Reason (Arr α)
  | .stream, y => if y.size = 1 then .ok ⟨1, 1, y.vals⟩ else .error .yobs
  | .batch, y =>
    let a : Arr α := match y.shape with
      | .s0 => ⟨1, 1, y.vals⟩
      | .s1 n => ⟨1, n, y.vals⟩
      | .s2 r c => ⟨r, c, y.vals⟩
    if a.rows = 1 then .error .yobs
    else if a.cols ≠ 1 then .error .ycols
    else .ok a

/-- arguments of one `update` / `set_reference` call (`None` = `none`) -/
structure Call (α : Type) where
  x : Option (Input α) := none
  yTrue : Option (Input α) := none
  yPred : Option (Input α) := none

/-- validated `(X, y_true, y_pred)` -/
structure Valid (α : Type) where
  x : Option (Arr α) := none
  yTrue : Option (Arr α) := none
  yPred : Option (Arr α) := none

def validateYOpt (m : Mode) : Option (Input α) → Except Reason (Option (Arr α))
  | none => .ok none
  | some y =>
    match validateY m y with
    | .ok a => .ok (some a)
    | .error r => .error r

/-- `_validate_input`: X first (its state change is committed before the labels are looked at),
    then `y_true`, then `y_pred`. -/
def validateInput (m : Mode) (s : VState) (c : Call α) : VState × Except Reason (Valid α) :=
  let (s1, rx) : VState × Except Reason (Option (Arr α)) :=
    match c.x with
    | none => (s, .ok none)
    | some x =>
      match validateX m s x with
      | (s', .ok a) => (s', .ok (some a))
      | (s', .error r) => (s', .error r)
  match rx with
  | .error r => (s1, .error r)
  | .ok ax =>
    match validateYOpt m c.yTrue with
    | .error r => (s1, .error r)
    | .ok at' =>
      match validateYOpt m c.yPred with
      | .error r => (s1, .error r)
      | .ok ap => (s1, .ok { x := ax, yTrue := at', yPred := ap })

/-! ### per-detector wrappers -/

/-- ADWIN / CUSUM / PageHinkley `update`: base validation, then the univariate guard, which
    puts the prior names / dimension back before raising. -/
def validateUni (s : VState) (x : Input α) : VState × Except Reason (Arr α) :=
  let prior := s
  match validateX .stream s x with
  | (s', .ok a) => if a.cols ≠ 1 then (prior, .error .univariate) else (s', .ok a)
  | (s', .error r) => (s', .error r)

/-- CDBD `set_reference` / `update`: guard on `np.shape(X)` before validation -/
def cdbdGuard (x : Input α) : Bool :=
  match x.shape with
  | .s2 _ c => c != 1
  | _ => false

def validateCdbd (s : VState) (x : Input α) : VState × Except Reason (Arr α) :=
  if cdbdGuard x then (s, .error .univariate) else validateX .batch s x

/-- HDDDM / CDBD with `detect_batch = 1`: `set_reference` ends with `reset()`, which feeds the second half of
    the stored reference back through `update` — as a bare ARRAY (fix 65ffa2d: `test_proxy.to_numpy()`), so
    its validation records no names and, the width being the recorded one, leaves the state as it is.  It
    still rejects the proxy when it has fewer than two rows (a 2-row reference). -/
def hdmProxy (s : VState) (refRows : Nat) : VState × Except Reason Unit :=
  if refRows - refRows / 2 ≤ 1 then (s, .error .rows) else (s, .ok ())

/-- `set_reference` of HDDDM (`guard = false`) / CDBD (`guard = true`) with `detect_batch = 1` -/
def validateHdmRef (guard : Bool) (s : VState) (x : Input α) : VState × Except Reason (Arr α) :=
  match (if guard then validateCdbd s x else validateX .batch s x) with
  | (s', .ok a) =>
    match hdmProxy s' a.rows with
    | (s'', .ok _) => (s'', .ok a)
    | (s'', .error r) => (s'', .error r)
  | (s', .error r) => (s', .error r)

/-- DDM / EDDM / STEPD / LFR / ADWINAccuracy: `_validate_input(None, y_true, y_pred)` -/
def validateLabels (s : VState) (yy : Input α × Input α) : VState × Except Reason (Arr α × Arr α) :=
  match validateInput .stream s { yTrue := some yy.1, yPred := some yy.2 } with
  | (s', .ok v) =>
    match v.yTrue, v.yPred with
    | some a, some b => (s', .ok (a, b))
    | _, _ => (s', .error .yobs)      -- unreachable: both labels were supplied
  | (s', .error r) => (s', .error r)

/-- ADWINAccuracy: the labels are validated, then the agreement bit (a scalar computed by `agree`)
    goes through ADWIN's own `update`, i.e. through `validateUni` — which records dimension 1. -/
def validateAccuracy (agree : Arr α × Arr α → α) (s : VState) (yy : Input α × Input α) :
    VState × Except Reason (Arr α) :=
  match validateLabels s yy with
  | (s', .ok p) => validateUni s' (.scalar (agree p))
  | (s', .error r) => (s', .error r)

/-! ### the common skeleton of every detector's `update`

  `[reset that is pending after a drift]; validate; count; algorithm`.
  `pre` is the pending reset (identity for PCACD, which validates first); it runs even
  when the call is then rejected. -/

structure Skel (ι β σ : Type) where
  validate : VState → ι → VState × Except Reason β
  pre : σ → σ
  step : σ → β → σ

structure DState (σ : Type) where
  v : VState
  inner : σ
  accepted : Nat

/-- one `update` call: the state after it and the reason when it raised -/
def Skel.update {ι β σ : Type} (k : Skel ι β σ) (s : DState σ) (i : ι) : DState σ × Option Reason :=
  match k.validate s.v i with
  | (v', .error r) => ({ s with v := v', inner := k.pre s.inner }, some r)
  | (v', .ok b) => ({ v := v', inner := k.step (k.pre s.inner) b, accepted := s.accepted + 1 }, none)

/-- the list of (state, outcome) after every call of a history -/
def Skel.trace {ι β σ : Type} (k : Skel ι β σ) : DState σ → List ι → List (DState σ × Option Reason)
  | _, [] => []
  | s, i :: is => k.update s i :: k.trace (k.update s i).1 is

/-- the state after a whole history -/
def Skel.run {ι β σ : Type} (k : Skel ι β σ) : DState σ → List ι → DState σ
  | s, [] => s
  | s, i :: is => k.run (k.update s i).1 is

/-- validation states after a history of bare `_validate_X` calls -/
def runX (m : Mode) : VState → List (Input α) → VState
  | s, [] => s
  | s, x :: xs => runX m (validateX m s x).1 xs

end MV.Validate
