/-
  C01 — the detector lifecycle contract as an executable acceptor over observed
  rows `(drift_state, total, since, retraining_recs)` plus the few input-derived
  signals the warm-up clauses need.  The same acceptor is (a) run by the driver on
  traces of the real detectors and (b) the statement proved about the Lean
  detector models in `Props/C01.lean`.  Import-free.
-/
import MenelausVerif.Base.Drift
namespace MV.Lifecycle

inductive Kind where
  | adwin    -- ADWIN, ADWINAccuracy          a = window_size_thresh, b = new_sample_thresh
  | burnin   -- CUSUM, PageHinkley            a = burn_in            (alarm needs since > a)
  | ddm      -- DDM                            a = n_threshold        (since ≥ a)
  | eddm     -- EDDM                           a = n_threshold        (errors in epoch ≥ a)
  | stepd    -- STEPD                          a = window_size        (since ≥ 2a)
  | lfr      -- LinearFourRates               a = burn_in, b = subsample
  | md3      -- MD3 (no minimum)
  | kdqS     -- KdqTreeStreaming              a = window_size
  | batch1   -- KdqTreeBatch, NNDVI           (since ≥ 1)
  | hdm      -- HDDDM, CDBD                   a = detect_batch
  | pcacd    -- PCACD                          a = window_size, b = step
  deriving DecidableEq, Repr

structure Cfg where
  kind : Kind
  a : Nat
  b : Nat
  /-- value of the since-reset counter right after the update that follows a drift -/
  restart : Nat
  /-- how much the total counter grows in the update that follows a drift (2 for HDDDM/CDBD
      with detect_batch = 1: the proxy batch split off the reference is counted) -/
  incAfterDrift : Nat
  hasRecs : Bool

/-- one update as observed on a detector -/
structure Obs where
  drift : Drift
  total : Nat
  since : Nat
  recs : Recs
  /-- EDDM: this sample was a misclassification -/
  err : Bool
  /-- KdqTreeStreaming / KdqTreeBatch: this update completed (built) the reference, which restarts `since` at 0 -/
  refDone : Bool

/-- what the acceptor remembers between rows -/
structure Mon where
  total : Nat := 0
  since : Nat := 0
  prevDrift : Drift := .none
  errs : Nat := 0        -- errors seen in the current epoch (EDDM)
  width : Nat := 0       -- ADWIN window width
  epoch : Nat := 0       -- number of drifts reported so far
  refBuilt : Bool := false

/-- expected value of the since-reset counter for this row -/
def expectedSince (c : Cfg) (m : Mon) (o : Obs) : Nat :=
  if o.refDone then 0
  else if m.prevDrift = .drift then c.restart
  else m.since + 1

def expectedTotal (c : Cfg) (m : Mon) : Nat :=
  m.total + (if m.prevDrift = .drift then c.incAfterDrift else 1)

/-- errors of the current epoch including this row -/
def errsNow (m : Mon) (o : Obs) : Nat :=
  (if m.prevDrift = .drift then 0 else m.errs) + (if o.err then 1 else 0)

/-- ADWIN's width after this row, reconstructed from the public recommendation -/
def widthNow (m : Mon) (o : Obs) : Nat :=
  match o.drift, o.recs with
  | .drift, (some x, some y) => y + 1 - x
  | _, _ => m.width + 1

/-- the documented minimum amount of data before any warning / drift -/
def warm (c : Cfg) (m : Mon) (o : Obs) : Bool :=
  match c.kind with
  | .adwin => o.total % c.b == 0 && decide (m.width + 1 > c.a)
  | .burnin => decide (o.since > c.a)
  | .ddm => decide (o.since ≥ c.a)
  | .eddm => decide (errsNow m o ≥ c.a)
  | .stepd => decide (o.since ≥ 2 * c.a)
  | .lfr => decide (o.since > c.a) && o.since % c.b == 0
  | .md3 => true
  | .kdqS => (m.refBuilt && !o.refDone && !(m.prevDrift = .drift)) && decide (o.since ≥ c.a)
  | .batch1 => decide (o.since ≥ 1)
  | .hdm => decide (o.since ≥ max 2 c.a)
  | .pcacd => (o.total - 1) % c.b == 0 && decide (o.since ≥ (if m.epoch = 0 then 2 * c.a else c.a))

def recsAtDrift (o : Obs) : Bool :=
  match o.recs with
  | (some x, some y) => decide (x ≤ y) && decide (y + 1 = o.total)
  | _ => false

/-- after the update that follows a drift no index older than the current sample survives -/
def recsFresh (o : Obs) : Bool :=
  (match o.recs.1 with | some x => decide (x + 1 ≥ o.total) | none => true) &&
  (match o.recs.2 with | some y => decide (y + 1 ≥ o.total) | none => true)

def adwinRecs (m : Mon) (o : Obs) : Bool :=
  match o.recs with
  | (some x, some _) => decide (x + widthNow m o = o.total) && decide (1 ≤ widthNow m o)
      && decide (widthNow m o ≤ m.width + 1)
  | _ => false

/-- first violated clause of the contract on this row, if any -/
def violated (c : Cfg) (m : Mon) (o : Obs) : Option String :=
  if o.total ≠ expectedTotal c m then some "total"
  else if o.since ≠ expectedSince c m o then some "since"
  else if o.drift ≠ .none ∧ warm c m o = false then some "warmup"
  else if c.hasRecs ∧ o.drift = .drift ∧ recsAtDrift o = false then some "recs-at-drift"
  else if c.hasRecs ∧ m.prevDrift = .drift ∧ ¬(c.kind = .adwin ∧ o.drift = .drift) ∧ recsFresh o = false then
    some "recs-not-cleared"   -- (ADWIN re-sets the cleared recommendation to its retained window when it cuts again)
  else if c.kind = .adwin ∧ o.drift = .drift ∧ adwinRecs m o = false then some "adwin-recs-width"
  else none

def advance (m : Mon) (o : Obs) : Mon :=
  { total := o.total, since := o.since, prevDrift := o.drift, errs := errsNow m o,
    width := widthNow m o, epoch := m.epoch + (if o.drift = .drift then 1 else 0),
    refBuilt := (m.refBuilt && !(m.prevDrift = .drift)) || o.refDone }

/-- run the acceptor; `none` = the whole trace satisfies the contract, `some (i, clause)` = first violation -/
def accept (c : Cfg) : Mon → Nat → List Obs → Option (Nat × String)
  | _, _, [] => none
  | m, i, o :: os =>
    match violated c m o with
    | some cl => some (i, cl)
    | none => accept c (advance m o) (i + 1) os

end MV.Lifecycle
