/-
  Helper lemmas for C06: the bounds cache and the loop over `rates_tracked`
  (Model/LFR.lean).  No arithmetic law is used: everything here holds for every
  carrier, in particular for the executed `Float` instance.  The only assumption,
  where stated, is reflexivity of `==` on the carrier (`ReflBEq`; at `Float` it
  fails for NaN only, and a rate is never NaN because every denominator is ≥ 2).
-/
import MenelausVerif.Model.LFR
namespace MV.LFR
set_option linter.unusedSectionVars false

variable {α : Type} [Add α] [Sub α] [Mul α] [Div α] [LT α] [DecidableLT α] [LE α] [DecidableLE α]
  [NatCast α] [BEq α] [HasRound α]

/-! ### dictionaries with four keys -/

@[simp] theorem Four.set_same {β : Type} (f : Four β) (r : Rate) (v : β) : (f.set r v) r = v := by
  simp [Four.set]

theorem Four.set_other {β : Type} (f : Four β) {r r' : Rate} (v : β) (h : r' ≠ r) :
    (f.set r v) r' = f r' := by
  simp [Four.set, h]

/-! ### the cache: first entry for a key wins, entries are never replaced -/

theorem lookup_append_some {k : α × Nat} {b : Bounds α} (cache extra : Cache α)
    (h : lookup k cache = some b) : lookup k (cache ++ extra) = some b := by
  induction cache with
  | nil => simp [lookup] at h
  | cons e rest ih =>
    obtain ⟨k', b'⟩ := e
    simp only [List.cons_append, lookup] at h ⊢
    split
    · rename_i hk; simpa [hk] using h
    · rename_i hk; simp only [hk] at h; exact ih h

theorem lookup_append_none {k : α × Nat} (cache : Cache α) (k' : α × Nat) (b : Bounds α)
    (h : lookup k cache = none) :
    lookup k (cache ++ [(k', b)]) = if keyEq k' k then some b else none := by
  induction cache with
  | nil => simp [lookup]
  | cons e rest ih =>
    obtain ⟨k'', b''⟩ := e
    simp only [List.cons_append, lookup] at h ⊢
    split
    · rename_i hk; simp [hk] at h
    · rename_i hk; simp only [hk] at h; exact ih h

theorem keyEq_refl [ReflBEq α] (k : α × Nat) : keyEq k k = true := by
  simp [keyEq]

/-- what `_update_bounds_dict` does to the accumulator -/
theorem getBounds_frame (c : Cfg α) (a : Acc α) (est : α) (denom : Nat) :
    (getBounds c a est denom).2.r = a.r ∧ (getBounds c a est denom).2.p = a.p ∧
    (getBounds c a est denom).2.warn = a.warn ∧ (getBounds c a est denom).2.alarm = a.alarm := by
  unfold getBounds; split <;> simp

theorem getBounds_mono (c : Cfg α) (a : Acc α) (est : α) (denom : Nat) {k : α × Nat} {b : Bounds α}
    (h : lookup k a.cache = some b) : lookup k (getBounds c a est denom).2.cache = some b := by
  unfold getBounds; split
  · simpa using h
  · simpa using lookup_append_some a.cache _ h

/-- the bounds returned are the cache entry of the key afterwards -/
theorem getBounds_lookup [ReflBEq α] (c : Cfg α) (a : Acc α) (est : α) (denom : Nat) :
    lookup (keyOf c est denom) (getBounds c a est denom).2.cache = some (getBounds c a est denom).1 := by
  unfold getBounds; split
  · rename_i b hb; simpa using hb
  · rename_i hb
    simp only []
    rw [lookup_append_none _ _ _ hb, keyEq_refl]; rfl

/-- a cached key is not simulated again: cache and draws are untouched -/
theorem getBounds_hit (c : Cfg α) (a : Acc α) (est : α) (denom : Nat) {b : Bounds α}
    (h : lookup (keyOf c est denom) a.cache = some b) : getBounds c a est denom = (b, a) := by
  unfold getBounds; simp [h]

/-- a key that appears was absent before, belongs to the rate under test and maps to the
    simulation run on the next block of draws -/
theorem getBounds_new (c : Cfg α) (a : Acc α) (est : α) (denom : Nat) {k : α × Nat} {b : Bounds α}
    (h0 : lookup k a.cache = none) (h1 : lookup k (getBounds c a est denom).2.cache = some b) :
    lookup (keyOf c est denom) a.cache = none ∧ keyEq (keyOf c est denom) k = true ∧
    b = simNext c a denom := by
  unfold getBounds at h1
  split at h1
  · simp [h0] at h1
  · rename_i hb
    simp only [] at h1
    rw [lookup_append_none _ _ _ h0] at h1
    split at h1
    · rename_i hk; exact ⟨hb, hk, by simpa using h1.symm⟩
    · simp at h1

/-! ### one pass of `_calculate_rate_bounds` -/

theorem calcRate_r (c : Cfg α) (x : Ctx α) (a : Acc α) (rate : Rate) :
    (calcRate c x a rate).r = a.r.set rate (newR c x (a.r rate) rate) ∧
    (calcRate c x a rate).p = a.p.set rate (x.new rate) := by
  unfold calcRate
  split
  · have := getBounds_frame c { a with p := a.p.set rate (x.new rate), r := a.r.set rate (newR c x (a.r rate) rate) }
      (x.new rate) (x.conf.den rate)
    simp only [] at this ⊢
    exact ⟨this.1, this.2.1⟩
  · simp

theorem calcRate_closed (c : Cfg α) (x : Ctx α) (a : Acc α) (rate : Rate) (hg : gate c x.n = false) :
    (calcRate c x a rate).warn = a.warn ∧ (calcRate c x a rate).alarm = a.alarm ∧
    (calcRate c x a rate).cache = a.cache ∧ (calcRate c x a rate).blocks = a.blocks := by
  unfold calcRate; simp [hg]

theorem calcRate_mono (c : Cfg α) (x : Ctx α) (a : Acc α) (rate : Rate) {k : α × Nat} {b : Bounds α}
    (h : lookup k a.cache = some b) : lookup k (calcRate c x a rate).cache = some b := by
  unfold calcRate
  split
  · exact getBounds_mono c _ _ _ (by simpa using h)
  · simpa using h

/-- with the gate open the rate's flags are the two tests of its new statistic against the
    bounds now cached for its key -/
theorem calcRate_open [ReflBEq α] (c : Cfg α) (x : Ctx α) (a : Acc α) (rate : Rate) (hg : gate c x.n = true) :
    ∃ bd, lookup (keyOf c (x.new rate) (x.conf.den rate)) (calcRate c x a rate).cache = some bd ∧
      (calcRate c x a rate).warn = a.warn.set rate (outside ((calcRate c x a rate).r rate) bd.lbWarn bd.ubWarn) ∧
      (calcRate c x a rate).alarm = a.alarm.set rate (outside ((calcRate c x a rate).r rate) bd.lbDetect bd.ubDetect) := by
  have hr := (calcRate_r c x a rate).1
  rw [hr, Four.set_same]
  unfold calcRate
  simp only [hg, if_true]
  let a1 : Acc α := { a with p := a.p.set rate (x.new rate), r := a.r.set rate (newR c x (a.r rate) rate) }
  have hl := getBounds_lookup c a1 (x.new rate) (x.conf.den rate)
  have hf := getBounds_frame c a1 (x.new rate) (x.conf.den rate)
  refine ⟨(getBounds c a1 (x.new rate) (x.conf.den rate)).1, hl, ?_, ?_⟩
  · show (Four.set (getBounds c a1 _ _).2.warn rate _) = _
    rw [hf.2.2.1]
  · show (Four.set (getBounds c a1 _ _).2.alarm rate _) = _
    rw [hf.2.2.2]

/-- a cache entry that appears in one pass: its key is the key of the rate under test, and its value the
    simulation on the next unread block of draws -/
theorem calcRate_new (c : Cfg α) (x : Ctx α) (a : Acc α) (rate : Rate) {k : α × Nat} {b : Bounds α}
    (h0 : lookup k a.cache = none) (h1 : lookup k (calcRate c x a rate).cache = some b) :
    gate c x.n = true ∧ keyEq (keyOf c (x.new rate) (x.conf.den rate)) k = true ∧
    b = simBounds c (x.conf.den rate) (a.blocks.headD []) := by
  unfold calcRate at h1
  split at h1
  · rename_i hg
    have := getBounds_new c { a with p := a.p.set rate (x.new rate), r := a.r.set rate (newR c x (a.r rate) rate) }
      (x.new rate) (x.conf.den rate) (k := k) (b := b) (by simpa using h0) (by simpa using h1)
    exact ⟨hg, this.2.1, by simpa [simNext] using this.2.2⟩
  · simp [h0] at h1

/-- the accumulator after the `_p_table` / `_r_stat` writes of one pass, before the bounds are fetched -/
def acc1 (c : Cfg α) (x : Ctx α) (a : Acc α) (rate : Rate) : Acc α :=
  { a with p := a.p.set rate (x.new rate), r := a.r.set rate (newR c x (a.r rate) rate) }

theorem calcRate_gate_open (c : Cfg α) (x : Ctx α) (a : Acc α) (rate : Rate) (hg : gate c x.n = true) :
    (calcRate c x a rate).warn =
      (getBounds c (acc1 c x a rate) (x.new rate) (x.conf.den rate)).2.warn.set rate
        (outside (newR c x (a.r rate) rate) (getBounds c (acc1 c x a rate) (x.new rate) (x.conf.den rate)).1.lbWarn
          (getBounds c (acc1 c x a rate) (x.new rate) (x.conf.den rate)).1.ubWarn) ∧
    (calcRate c x a rate).alarm =
      (getBounds c (acc1 c x a rate) (x.new rate) (x.conf.den rate)).2.alarm.set rate
        (outside (newR c x (a.r rate) rate) (getBounds c (acc1 c x a rate) (x.new rate) (x.conf.den rate)).1.lbDetect
          (getBounds c (acc1 c x a rate) (x.new rate) (x.conf.den rate)).1.ubDetect) ∧
    (calcRate c x a rate).cache = (getBounds c (acc1 c x a rate) (x.new rate) (x.conf.den rate)).2.cache ∧
    (calcRate c x a rate).blocks = (getBounds c (acc1 c x a rate) (x.new rate) (x.conf.den rate)).2.blocks := by
  unfold calcRate
  simp only [hg, if_true]
  exact ⟨rfl, rfl, rfl, rfl⟩

/-- a pass whose key is cached leaves the cache alone -/
theorem calcRate_hit (c : Cfg α) (x : Ctx α) (a : Acc α) (rate : Rate) {b : Bounds α}
    (h : lookup (keyOf c (x.new rate) (x.conf.den rate)) a.cache = some b) :
    (calcRate c x a rate).cache = a.cache := by
  cases hg : gate c x.n
  · exact (calcRate_closed c x a rate hg).2.2.1
  · rw [(calcRate_gate_open c x a rate hg).2.2.1, getBounds_hit c (acc1 c x a rate) _ _ (b := b) (by simpa [acc1] using h)]
    rfl

/-! ### the whole loop -/

def loopFrom (c : Cfg α) (x : Ctx α) (a : Acc α) (l : List Rate) : Acc α := l.foldl (calcRate c x) a

@[simp] theorem loopFrom_nil (c : Cfg α) (x : Ctx α) (a : Acc α) : loopFrom c x a [] = a := rfl
@[simp] theorem loopFrom_cons (c : Cfg α) (x : Ctx α) (a : Acc α) (r : Rate) (l : List Rate) :
    loopFrom c x a (r :: l) = loopFrom c x (calcRate c x a r) l := rfl

/-- rates that are not in the list are not touched -/
theorem loop_frame (c : Cfg α) (x : Ctx α) (l : List Rate) (a : Acc α) (r : Rate) (hr : r ∉ l) :
    (loopFrom c x a l).r r = a.r r ∧ (loopFrom c x a l).p r = a.p r ∧
    (loopFrom c x a l).warn r = a.warn r ∧ (loopFrom c x a l).alarm r = a.alarm r := by
  induction l generalizing a with
  | nil => simp
  | cons r' l ih =>
    have hne : r ≠ r' := fun h => hr (by simp [h])
    have hnl : r ∉ l := fun h => hr (by simp [h])
    rw [loopFrom_cons]
    obtain ⟨h1, h2, h3, h4⟩ := ih (calcRate c x a r') hnl
    rw [h1, h2, h3, h4]
    have hrp := calcRate_r c x a r'
    refine ⟨by rw [hrp.1, Four.set_other _ _ hne], by rw [hrp.2, Four.set_other _ _ hne], ?_, ?_⟩
    · unfold calcRate; split
      · have hf := getBounds_frame c { a with p := a.p.set r' (x.new r'), r := a.r.set r' (newR c x (a.r r') r') }
          (x.new r') (x.conf.den r')
        show (Four.set _ r' _) r = _
        rw [Four.set_other _ _ hne, hf.2.2.1]
      · rfl
    · unfold calcRate; split
      · have hf := getBounds_frame c { a with p := a.p.set r' (x.new r'), r := a.r.set r' (newR c x (a.r r') r') }
          (x.new r') (x.conf.den r')
        show (Four.set _ r' _) r = _
        rw [Four.set_other _ _ hne, hf.2.2.2]
      · rfl

theorem loop_mono (c : Cfg α) (x : Ctx α) (l : List Rate) (a : Acc α) {k : α × Nat} {b : Bounds α}
    (h : lookup k a.cache = some b) : lookup k (loopFrom c x a l).cache = some b := by
  induction l generalizing a with
  | nil => simpa using h
  | cons r' l ih => rw [loopFrom_cons]; exact ih _ (calcRate_mono c x a r' h)

theorem loop_closed (c : Cfg α) (x : Ctx α) (l : List Rate) (a : Acc α) (hg : gate c x.n = false) :
    (loopFrom c x a l).warn = a.warn ∧ (loopFrom c x a l).alarm = a.alarm ∧
    (loopFrom c x a l).cache = a.cache ∧ (loopFrom c x a l).blocks = a.blocks := by
  induction l generalizing a with
  | nil => simp
  | cons r' l ih =>
    rw [loopFrom_cons]
    obtain ⟨h1, h2, h3, h4⟩ := ih (calcRate c x a r')
    obtain ⟨g1, g2, g3, g4⟩ := calcRate_closed c x a r' hg
    exact ⟨h1.trans g1, h2.trans g2, h3.trans g3, h4.trans g4⟩

/-- every listed rate (no repetitions) ends with the statistic `newR` of its old value and its
    `_p_table` entry equal to the new rate -/
theorem loop_r (c : Cfg α) (x : Ctx α) (l : List Rate) (hnd : l.Nodup) (a : Acc α) (r : Rate) (hr : r ∈ l) :
    (loopFrom c x a l).r r = newR c x (a.r r) r ∧ (loopFrom c x a l).p r = x.new r := by
  induction l generalizing a with
  | nil => simp at hr
  | cons r' l ih =>
    rw [loopFrom_cons]
    have hnd' := (List.nodup_cons.mp hnd)
    by_cases h : r = r'
    · subst h
      obtain ⟨f1, f2, _, _⟩ := loop_frame c x l (calcRate c x a r) r hnd'.1
      have hrp := calcRate_r c x a r
      rw [f1, f2, hrp.1, hrp.2, Four.set_same, Four.set_same]; exact ⟨rfl, rfl⟩
    · have hrl : r ∈ l := by simpa [h] using hr
      obtain ⟨i1, i2⟩ := ih hnd'.2 (calcRate c x a r') hrl
      have hrp := calcRate_r c x a r'
      rw [i1, i2, hrp.1, Four.set_other _ _ h]; exact ⟨rfl, rfl⟩

/-- gate open: every listed rate's flags are the tests of its final statistic against the bounds
    cached (at the end of the loop) for its key -/
theorem loop_open [ReflBEq α] (c : Cfg α) (x : Ctx α) (hg : gate c x.n = true) (l : List Rate) (hnd : l.Nodup)
    (a : Acc α) (r : Rate) (hr : r ∈ l) :
    ∃ bd, lookup (keyOf c (x.new r) (x.conf.den r)) (loopFrom c x a l).cache = some bd ∧
      (loopFrom c x a l).warn r = outside ((loopFrom c x a l).r r) bd.lbWarn bd.ubWarn ∧
      (loopFrom c x a l).alarm r = outside ((loopFrom c x a l).r r) bd.lbDetect bd.ubDetect := by
  induction l generalizing a with
  | nil => simp at hr
  | cons r' l ih =>
    rw [loopFrom_cons]
    have hnd' := (List.nodup_cons.mp hnd)
    by_cases h : r = r'
    · subst h
      obtain ⟨bd, hl, hw, ha⟩ := calcRate_open c x a r hg
      obtain ⟨f1, _, f3, f4⟩ := loop_frame c x l (calcRate c x a r) r hnd'.1
      refine ⟨bd, loop_mono c x l _ hl, ?_, ?_⟩
      · rw [f3, f1, hw, Four.set_same]
      · rw [f4, f1, ha, Four.set_same]
    · have hrl : r ∈ l := by simpa [h] using hr
      exact ih hnd'.2 (calcRate c x a r') hrl

/-- an entry that appears during the loop is a simulation for one of the listed rates' current key -/
theorem loop_new (c : Cfg α) (x : Ctx α) (l : List Rate) (a : Acc α) {k : α × Nat} {b : Bounds α}
    (h0 : lookup k a.cache = none) (h1 : lookup k (loopFrom c x a l).cache = some b) :
    gate c x.n = true ∧ ∃ r ∈ l, keyEq (keyOf c (x.new r) (x.conf.den r)) k = true ∧
      ∃ block, b = simBounds c (x.conf.den r) block := by
  induction l generalizing a with
  | nil => simp [h0] at h1
  | cons r' l ih =>
    rw [loopFrom_cons] at h1
    cases hc : lookup k (calcRate c x a r').cache with
    | none =>
      obtain ⟨hg, r, hr, hk, hb⟩ := ih _ hc h1
      exact ⟨hg, r, by simp [hr], hk, hb⟩
    | some b' =>
      have hb' : b' = b := by
        have := loop_mono c x l _ hc
        rw [h1] at this; exact (Option.some.inj this).symm
      subst hb'
      obtain ⟨hg, hk, hb⟩ := calcRate_new c x a r' h0 hc
      exact ⟨hg, r', by simp, hk, _, hb⟩

end MV.LFR
