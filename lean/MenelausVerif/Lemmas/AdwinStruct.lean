/-
  Structural lemmas about the ADWIN model (no arithmetic law used: they hold for
  every carrier, in particular for the executed `Float` instance).
-/
import MenelausVerif.Model.Adwin
namespace MV.Adwin

/-! ### traversal list -/
section plain
variable {α : Type}

/-- number of samples represented by a traversal list -/
def sizeOf (fl : List (Nat × Bucket α)) : Nat := (fl.map (fun e => 2 ^ e.1)).sum

@[simp] theorem sizeOf_nil : sizeOf ([] : List (Nat × Bucket α)) = 0 := rfl
@[simp] theorem sizeOf_cons (e : Nat × Bucket α) (fl) : sizeOf (e :: fl) = 2 ^ e.1 + sizeOf fl := by
  simp [sizeOf]
@[simp] theorem sizeOf_append (a b : List (Nat × Bucket α)) : sizeOf (a ++ b) = sizeOf a + sizeOf b := by
  simp [sizeOf]

@[simp] theorem flatFrom_nil (i : Nat) : flatFrom i ([] : Rows α) = [] := rfl
@[simp] theorem flatFrom_cons (i : Nat) (r : List (Bucket α)) (rest : Rows α) :
    flatFrom i (r :: rest) = flatFrom (i + 1) rest ++ r.map (fun b => (i, b)) := rfl

/-- the rows after `add_bucket` of a carried bucket on the first row (a new row when there is none) -/
def carryRows (carry : Option (Bucket α)) (rows : Rows α) : Rows α :=
  match carry, rows with
  | none, rows => rows
  | some b, [] => [[b]]
  | some b, r :: rest => (r ++ [b]) :: rest

theorem flatFrom_carryRows_some (i : Nat) (b : Bucket α) (rows : Rows α) :
    flatFrom i (carryRows (some b) rows) = flatFrom i rows ++ [(i, b)] := by
  cases rows with
  | nil => simp [carryRows]
  | cons r rest => simp [carryRows]

theorem flat_pushHead [NatCast α] (x : α) (rows : Rows α) :
    flat (pushHead x rows) = flat rows ++ [(0, (x, ((0 : Nat) : α)))] := by
  cases rows with
  | nil => simp [flat, pushHead]
  | cons r rest => simp [flat, pushHead]

/-! ### the tail of the row list -/

/-- a non-empty row list whose last row is not empty -/
def LastNe : Rows α → Prop
  | [] => False
  | [r] => r ≠ []
  | _ :: rest => LastNe rest

/-- what `_remove_last` relies on: there is a row, and when there are several the tail row is not empty -/
def TailOK : Rows α → Prop
  | [] => False
  | [_] => True
  | _ :: rest => LastNe rest

theorem LastNe.ne_nil {rows : Rows α} (h : LastNe rows) : rows ≠ [] := by
  cases rows <;> simp_all [LastNe]

theorem lastNe_cons (r : List (Bucket α)) (rest : Rows α) :
    LastNe (r :: rest) ↔ (rest = [] ∧ r ≠ []) ∨ LastNe rest := by
  cases rest with
  | nil => simp [LastNe]
  | cons a b => simp [LastNe]

theorem tailOK_cons (r : List (Bucket α)) (rest : Rows α) :
    TailOK (r :: rest) ↔ rest = [] ∨ LastNe rest := by
  cases rest with
  | nil => simp [TailOK]
  | cons a b => simp [TailOK]

theorem TailOK.ne_nil {rows : Rows α} (h : TailOK rows) : rows ≠ [] := by
  cases rows <;> simp_all [TailOK]

/-- with a non-empty tail row, the traversal starts with the oldest bucket, whose row is the last one -/
theorem flatFrom_of_lastNe [NatCast α] (rows : Rows α) (h : LastNe rows) (i : Nat) :
    flatFrom i rows = (i + (rows.length - 1), oldest rows) :: flatFrom i (dropOldest rows)
    ∧ (dropOldest rows).length ≤ rows.length
    ∧ ((dropOldest rows).length < rows.length → rows.length = (dropOldest rows).length + 1)
    ∧ (dropOldest rows = [] → ∃ b, rows = [[b]]) := by
  induction rows generalizing i with
  | nil => simp [LastNe] at h
  | cons r rest ih =>
    cases rest with
    | nil =>
      cases r with
      | nil => simp [LastNe] at h
      | cons b r' =>
        cases r' with
        | nil => simp [dropOldest, oldest]
        | cons b' r'' => simp [dropOldest, oldest]
    | cons r2 rest2 =>
      have h' : LastNe (r2 :: rest2) := h
      obtain ⟨e1, e2, e3, e4⟩ := ih h' (i + 1)
      have ho : oldest (r :: r2 :: rest2) = oldest (r2 :: rest2) := by
        simp [oldest, List.getLast?_cons_cons]
      refine ⟨?_, ?_, ?_, ?_⟩
      · rw [flatFrom_cons, e1, ho]
        simp [dropOldest]
        omega
      · simp [dropOldest] at e2 ⊢; omega
      · simp [dropOldest] at e3 ⊢; omega
      · simp [dropOldest]

theorem flatFrom_trimAll (rows : Rows α) (i : Nat) : flatFrom i (trimAll rows) = flatFrom i rows := by
  induction rows generalizing i with
  | nil => rfl
  | cons r rest ih =>
    unfold trimAll
    split
    · rename_i heq
      have := ih (i + 1)
      rw [heq] at this
      split
      · rename_i hr
        have : r = [] := by simpa using hr
        subst this
        simp_all
      · simp_all
    · rename_i rest' hne
      rw [flatFrom_cons, flatFrom_cons, ih]

theorem trimAll_lastNe (rows : Rows α) : trimAll rows = [] ∨ LastNe (trimAll rows) := by
  induction rows with
  | nil => left; rfl
  | cons r rest ih =>
    unfold trimAll
    split
    · split
      · left; rfl
      · rename_i hr
        right
        simpa [LastNe] using hr
    · rename_i rest' hne
      right
      rw [lastNe_cons]
      right
      rcases ih with h | h
      · exact absurd h hne
      · exact h

theorem trimAll_length_le (rows : Rows α) : (trimAll rows).length ≤ rows.length := by
  induction rows with
  | nil => simp [trimAll]
  | cons r rest ih =>
    unfold trimAll
    split
    · split <;> simp
    · simpa using ih

theorem flatFrom_trimTail (rows : Rows α) (i : Nat) : flatFrom i (trimTail rows) = flatFrom i rows := by
  cases rows with
  | nil => rfl
  | cons r rest => simp [trimTail, flatFrom_trimAll]

theorem trimTail_tailOK (rows : Rows α) (h : rows ≠ []) : TailOK (trimTail rows) := by
  cases rows with
  | nil => exact absurd rfl h
  | cons r rest =>
    simp only [trimTail]
    rw [tailOK_cons]
    exact trimAll_lastNe rest

/-! ### row capacity -/

theorem mem_trimAll {rows : Rows α} {r : List (Bucket α)} (h : r ∈ trimAll rows) : r ∈ rows := by
  induction rows with
  | nil => simp [trimAll] at h
  | cons r0 rest ih =>
    unfold trimAll at h
    split at h
    · split at h
      · simp at h
      · simp at h; simp [h]
    · rename_i rest' _
      rcases List.mem_cons.1 h with h | h
      · simp [h]
      · exact List.mem_cons_of_mem _ (ih h)

theorem mem_trimTail {rows : Rows α} {r : List (Bucket α)} (h : r ∈ trimTail rows) : r ∈ rows := by
  cases rows with
  | nil => simp [trimTail] at h
  | cons r0 rest =>
    rcases List.mem_cons.1 h with h | h
    · simp [h]
    · exact List.mem_cons_of_mem _ (mem_trimAll h)

theorem mem_dropOldest {rows : Rows α} {r : List (Bucket α)} (h : r ∈ dropOldest rows) :
    ∃ r' ∈ rows, r.length ≤ r'.length := by
  induction rows with
  | nil => simp [dropOldest] at h
  | cons r0 rest ih =>
    cases rest with
    | nil =>
      cases r0 with
      | nil => simp [dropOldest] at h; subst h; exact ⟨[], by simp, by simp⟩
      | cons b r1 =>
        cases r1 with
        | nil => simp [dropOldest] at h
        | cons b' r2 => simp [dropOldest] at h; subst h; exact ⟨b :: b' :: r2, by simp, by simp⟩
    | cons r1 rest2 =>
      simp only [dropOldest] at h
      rcases List.mem_cons.1 h with h | h
      · exact ⟨r0, by simp, by simp [h]⟩
      · obtain ⟨r', h1, h2⟩ := ih h
        exact ⟨r', List.mem_cons_of_mem _ h1, h2⟩

theorem lastNe_of_tailOK {rows : Rows α} (h : TailOK rows) (i : Nat) (hf : flatFrom i rows ≠ []) :
    LastNe rows := by
  cases rows with
  | nil => simp [TailOK] at h
  | cons r rest =>
    cases rest with
    | nil =>
      simp only [LastNe]
      intro hr; subst hr; simp at hf
    | cons a b => exact h

/-- row list and window size fit together -/
def Shape (rows : Rows α) (W : Nat) : Prop := TailOK rows ∧ sizeOf (flat rows) = W

end plain

section arith
variable {α : Type} [Add α] [Sub α] [Mul α] [Div α] [NatCast α]

/-- one run of `_compress_buckets` is a sequence of local replacements in the traversal list:
    two neighbouring buckets of row `i` become one bucket of row `i+1` at the same place -/
inductive Merges : List (Nat × Bucket α) → List (Nat × Bucket α) → Prop
  | refl (fl) : Merges fl fl
  | step (A B : List (Nat × Bucket α)) (i : Nat) (b0 b1 : Bucket α) (fl) :
      Merges (A ++ (i + 1, merge i b0 b1) :: B) fl → Merges (A ++ (i, b0) :: (i, b1) :: B) fl

theorem Merges.append_right {a b : List (Nat × Bucket α)} (h : Merges a b) (T : List (Nat × Bucket α)) :
    Merges (a ++ T) (b ++ T) := by
  induction h with
  | refl fl => exact .refl _
  | step A B i b0 b1 fl _ ih =>
    have := Merges.step A (B ++ T) i b0 b1 (fl ++ T) (by simpa using ih)
    simpa using this

theorem compress_merges (M : Nat) (rows : Rows α) : ∀ (i : Nat) (carry : Option (Bucket α)),
    Merges (flatFrom i (carryRows carry rows)) (flatFrom i (compress M i carry rows)) := by
  induction rows with
  | nil =>
    intro i carry
    cases carry <;> simp [carryRows, compress] <;> exact .refl _
  | cons r rest ih =>
    intro i carry
    have hc : carryRows carry (r :: rest) = addCarry carry r :: rest := by
      cases carry <;> rfl
    rw [hc]
    unfold compress
    simp only
    split
    · -- the row is full
      split
      · rename_i b0 b1 row' heq
        rw [heq]
        have h1 := (ih (i + 1) (some (merge i b0 b1))).append_right (row'.map (fun b => (i, b)))
        rw [flatFrom_carryRows_some] at h1
        have := Merges.step (flatFrom (i + 1) rest) (row'.map (fun b => (i, b))) i b0 b1 _ (by simpa using h1)
        simpa using this
      · exact .refl _
    · exact .refl _

theorem Merges.sizeOf_eq {a b : List (Nat × Bucket α)} (h : Merges a b) : sizeOf a = sizeOf b := by
  induction h with
  | refl => rfl
  | step A B i b0 b1 fl _ ih =>
    rw [← ih]; simp [Nat.pow_succ]; omega

theorem Merges.length_le {a b : List (Nat × Bucket α)} (h : Merges a b) : b.length ≤ a.length := by
  induction h with
  | refl => exact Nat.le_refl _
  | step A B i b0 b1 fl _ ih => simp at ih ⊢; omega

theorem compress_cases (M i : Nat) (carry : Option (Bucket α)) (r : List (Bucket α)) (rest : Rows α) :
    compress M i carry (r :: rest) = addCarry carry r :: rest ∨
    ∃ b0 b1 row', addCarry carry r = b0 :: b1 :: row' ∧ (addCarry carry r).length = M + 1 ∧
      compress M i carry (r :: rest) = row' :: compress M (i + 1) (some (merge i b0 b1)) rest := by
  rw [compress]
  split
  · split
    · rename_i b0 b1 row' heq
      right; exact ⟨b0, b1, row', heq, by assumption, rfl⟩
    · left; rfl
  · left; rfl

/-- a carried bucket never overfills a row: rows of at most `M` buckets stay so (`M ≥ 1`) -/
theorem compress_some_le (M : Nat) (hM : 1 ≤ M) (rows : Rows α) : ∀ (i : Nat) (b : Bucket α),
    (∀ r ∈ rows, r.length ≤ M) → ∀ r ∈ compress M i (some b) rows, r.length ≤ M := by
  induction rows with
  | nil => intro i b _ r hr; simp [compress] at hr; subst hr; simpa using hM
  | cons r0 rest ih =>
    intro i b h r hr
    have h0 : r0.length ≤ M := h r0 (by simp)
    have hrest : ∀ r ∈ rest, r.length ≤ M := fun r hr => h r (List.mem_cons_of_mem _ hr)
    rcases compress_cases M i (some b) r0 rest with h1 | ⟨b0, b1, row', heq, hlen, h1⟩
    · rw [h1] at hr
      rcases List.mem_cons.1 hr with hr | hr
      · -- the row was not full
        subst hr
        simp only [addCarry, List.length_append, List.length_singleton]
        refine Classical.byContradiction fun hc => ?_
        have hfull : (addCarry (some b) r0).length = M + 1 := by simp [addCarry]; omega
        -- then the merge branch would have been taken
        rw [compress] at h1
        rw [if_pos hfull] at h1
        split at h1
        · rename_i b0 b1 row' heq
          have := congrArg List.length (List.cons.inj h1).1
          rw [heq] at this; simp at this; omega
        · rename_i hno
          cases hr0 : addCarry (some b) r0 with
          | nil => rw [hr0] at hfull; simp at hfull
          | cons a l =>
            cases l with
            | nil => rw [hr0] at hfull; simp at hfull; omega
            | cons a' l' => exact hno a a' l' hr0
      · exact hrest r hr
    · rw [h1] at hr
      rcases List.mem_cons.1 hr with hr | hr
      · subst hr
        rw [heq] at hlen; simp at hlen; omega
      · exact ih (i + 1) _ hrest r hr

theorem compress_none_le (M : Nat) (hM : 1 ≤ M) (r0 : List (Bucket α)) (rest : Rows α) (i : Nat)
    (h0 : r0.length ≤ M + 1) (hrest : ∀ r ∈ rest, r.length ≤ M) :
    ∀ r ∈ compress M i none (r0 :: rest), r.length ≤ M := by
  intro r hr
  rcases compress_cases M i none r0 rest with h1 | ⟨b0, b1, row', heq, hlen, h1⟩
  · rw [h1] at hr
    rcases List.mem_cons.1 hr with hr | hr
    · rw [hr]
      show r0.length ≤ M
      refine Classical.byContradiction fun hc => ?_
      have hfull : (addCarry none r0).length = M + 1 := by simp [addCarry]; omega
      rw [compress] at h1
      rw [if_pos hfull] at h1
      split at h1
      · rename_i b0 b1 row' heq
        have := congrArg List.length (List.cons.inj h1).1
        rw [heq] at this; simp at this; omega
      · rename_i hno
        cases hr0 : addCarry none r0 with
        | nil => rw [hr0] at hfull; simp at hfull
        | cons a l =>
          cases l with
          | nil => rw [hr0] at hfull; simp at hfull; omega
          | cons a' l' => exact hno a a' l' hr0
    · exact hrest r hr
  · rw [h1] at hr
    rcases List.mem_cons.1 hr with hr | hr
    · subst hr
      rw [heq] at hlen; simp at hlen; omega
    · exact compress_some_le M hM rest (i + 1) _ hrest r hr

theorem compress_lastNe (M : Nat) (rest : Rows α) : ∀ (j : Nat) (b : Bucket α),
    (rest = [] ∨ LastNe rest) → LastNe (compress M j (some b) rest) := by
  induction rest with
  | nil => intro j b _; simp [compress, LastNe]
  | cons r rs ih =>
    intro j b h
    have hrs : rs = [] ∨ LastNe rs := by
      rcases h with h | h
      · simp at h
      · rw [lastNe_cons] at h
        rcases h with ⟨h, _⟩ | h
        · left; exact h
        · right; exact h
    rcases compress_cases M j (some b) r rs with h1 | ⟨b0, b1, row', _, _, h1⟩
    · rw [h1, lastNe_cons]
      rcases hrs with h | h
      · left; exact ⟨h, by simp [addCarry]⟩
      · right; exact h
    · rw [h1, lastNe_cons]; right
      exact ih (j + 1) _ hrs

theorem compress_tailOK (M : Nat) (rows : Rows α) (i : Nat) (h : TailOK rows) :
    TailOK (compress M i none rows) := by
  cases rows with
  | nil => simp [TailOK] at h
  | cons r rest =>
    rw [tailOK_cons] at h
    rcases compress_cases M i none r rest with h1 | ⟨b0, b1, row', _, _, h1⟩
    · rw [h1, tailOK_cons]; exact h
    · rw [h1, tailOK_cons]; right
      exact compress_lastNe M rest (i + 1) _ h

omit [Add α] [Sub α] [Mul α] [Div α] in
theorem tailOK_pushHead (x : α) (rows : Rows α) (h : TailOK rows) : TailOK (pushHead x rows) := by
  cases rows with
  | nil => simp [TailOK] at h
  | cons r rest => rw [tailOK_cons] at h; simp only [pushHead]; rw [tailOK_cons]; exact h

/-- `_add_sample` keeps the shape: one more sample, same partition sizes up to merging -/
theorem shape_addSample (M : Nat) (rows : Rows α) (W : Nat) (x : α) (h : Shape rows W) :
    Shape (compress M 0 none (pushHead x rows)) (W + 1)
    ∧ Merges (flat rows ++ [(0, (x, ((0 : Nat) : α)))]) (flat (compress M 0 none (pushHead x rows))) := by
  have hm : Merges (flat rows ++ [(0, (x, ((0 : Nat) : α)))]) (flat (compress M 0 none (pushHead x rows))) := by
    have := compress_merges M (pushHead x rows) 0 none
    simp only [carryRows] at this
    rw [← flat_pushHead]; exact this
  refine ⟨⟨compress_tailOK M _ 0 (tailOK_pushHead x rows h.1), ?_⟩, hm⟩
  rw [← hm.sizeOf_eq, sizeOf_append, h.2]; simp

/-- `_remove_last` when the oldest bucket is smaller than the window: the traversal list loses its first entry -/
theorem shape_removeLast (s : State α) (h : Shape s.rows s.W) (j : Nat) (b : Bucket α)
    (rest : List (Nat × Bucket α)) (hf : flat s.rows = (j, b) :: rest) (hlt : 2 ^ j < s.W) :
    Shape (removeLast s).rows (removeLast s).W ∧ flat (removeLast s).rows = rest
    ∧ (removeLast s).W = s.W - 2 ^ j ∧ (removeLast s).total = s.total
    ∧ j = s.rows.length - 1 ∧ b = oldest s.rows := by
  have hl : LastNe s.rows := lastNe_of_tailOK h.1 0 (by rw [show flatFrom 0 s.rows = flat s.rows from rfl, hf]; simp)
  obtain ⟨e1, e2, e3, e4⟩ := flatFrom_of_lastNe s.rows hl 0
  have e1' : flat s.rows = (s.rows.length - 1, oldest s.rows) :: flat (dropOldest s.rows) := by
    simpa [flat] using e1
  rw [hf] at e1'
  injection e1' with hhead htail
  injection hhead with hj hb
  have hsz : 2 ^ j + sizeOf rest = s.W := by
    have := h.2; rw [hf] at this; simpa using this
  have hne : dropOldest s.rows ≠ [] := by
    intro hnil
    obtain ⟨b', hb'⟩ := e4 hnil
    have : flat s.rows = [(0, b')] := by rw [hb']; simp [flat]
    rw [hf] at this
    injection this with h1 h2
    injection h1 with h3 _
    subst h3 h2
    simp at hsz; omega
  have hflat : flat (removeLast s).rows = rest := by
    simp only [removeLast]
    split
    · simp only [flat, flatFrom_trimTail]; exact htail.symm
    · exact htail.symm
  refine ⟨⟨?_, ?_⟩, hflat, ?_, rfl, hj, hb⟩
  · simp only [removeLast]
    split
    · exact trimTail_tailOK _ hne
    · rename_i hlen
      have hlen' : (dropOldest s.rows).length = s.rows.length := by omega
      -- no row was removed: the tail row lost a bucket but is still there
      have : LastNe (dropOldest s.rows) ∨ (dropOldest s.rows).length = 1 := by
        clear e1 e2 e3 e4 hflat hlen htail
        generalize s.rows = rows at hl hlen' hne
        induction rows with
        | nil => simp [LastNe] at hl
        | cons r rs ih =>
          cases rs with
          | nil => right; simpa using hlen'
          | cons r2 rs2 =>
            left
            have hl2 : LastNe (r2 :: rs2) := hl
            have hlen2 : (dropOldest (r2 :: rs2)).length = (r2 :: rs2).length := by
              simpa [dropOldest] using hlen'
            have hne2 : dropOldest (r2 :: rs2) ≠ [] := by
              intro h0; rw [h0] at hlen2; simp at hlen2
            rcases ih hl2 hlen2 hne2 with h1 | h1
            · simp only [dropOldest]; rw [lastNe_cons]; right; exact h1
            · -- rs2 = [] and the single remaining row must be non-empty
              have hrs2 : rs2 = [] := by
                rw [hlen2] at h1; simpa using h1
              subst hrs2
              cases r2 with
              | nil => simp [LastNe] at hl2
              | cons b2 r2' =>
                cases r2' with
                | nil => simp [dropOldest] at hlen2
                | cons b3 r3 => simp [dropOldest, LastNe]
      rcases this with h1 | h1
      · cases hd : dropOldest s.rows with
        | nil => exact absurd hd hne
        | cons a l =>
          rw [hd] at h1
          rw [tailOK_cons]
          cases l with
          | nil => left; rfl
          | cons a2 l2 => right; exact h1
      · cases hd : dropOldest s.rows with
        | nil => exact absurd hd hne
        | cons a l =>
          rw [hd] at h1
          have : l = [] := by simpa using h1
          subst this; simp [TailOK]
  · rw [hflat]; simp only [removeLast]; rw [← hj]; omega
  · simp only [removeLast]; rw [← hj]

end arith

section full
variable {α : Type} [Add α] [Sub α] [Mul α] [Div α] [Neg α] [LT α] [DecidableLT α]
  [NatCast α] [HasSqrt α] [HasLogExp α]

/-! ### one scan -/

/-- left-to-right accumulation of the older part's total, as the scan computes it -/
def accT0 (t0 : α) (pre : List (Nat × Bucket α)) : α := pre.foldl (fun t e => t + e.2.1) t0
/-- left-to-right accumulation of the newer part's total -/
def accT1 (t1 : α) (pre : List (Nat × Bucket α)) : α := pre.foldl (fun t e => t - e.2.1) t1

/-- the split after the buckets `pre` (older part) is admissible and exceeds the epsilon-cut;
    `n0, n1, t0, t1` are the scan's accumulators before `pre` -/
def splitHit (c : Cfg α) (s : State α) (n0 n1 : Nat) (t0 t1 : α) (pre : List (Nat × Bucket α)) : Prop :=
  c.subThresh ≤ n0 + sizeOf pre ∧ c.subThresh ≤ n1 - sizeOf pre ∧
  checkEps c s (n0 + sizeOf pre) (accT0 t0 pre) (n1 - sizeOf pre) (accT1 t1 pre) = true

/-- a scan hits iff some bucket boundary other than the end of the youngest bucket is an
    admissible split exceeding the epsilon-cut -/
theorem scan_iff (c : Cfg α) (s : State α) (fl : List (Nat × Bucket α)) : ∀ (n0 n1 : Nat) (t0 t1 : α),
    scan c s n0 n1 t0 t1 fl = true ↔
      ∃ k, ∃ hk : k < fl.length, ¬ (k + 1 = fl.length ∧ (fl[k]).1 = 0) ∧
        splitHit c s n0 n1 t0 t1 (fl.take (k + 1)) := by
  induction fl with
  | nil => intro n0 n1 t0 t1; simp [scan]
  | cons e rest ih =>
    intro n0 n1 t0 t1
    obtain ⟨i, b⟩ := e
    rw [scan]
    by_cases hexit : i = 0 ∧ rest.isEmpty = true
    · rw [if_pos hexit]
      obtain ⟨hi, hr⟩ := hexit
      have hr' : rest = [] := by simpa using hr
      subst hr' hi
      simp only [Bool.false_eq_true, false_iff, not_exists]
      intro k hk
      have : k = 0 := by simp at hk; omega
      subst this
      simp
    · rw [if_neg hexit]
      by_cases hadm : c.subThresh ≤ n0 + 2 ^ i ∧ c.subThresh ≤ n1 - 2 ^ i ∧
          checkEps c s (n0 + 2 ^ i) (t0 + b.1) (n1 - 2 ^ i) (t1 - b.1) = true
      · rw [if_pos hadm]
        simp only [true_iff]
        refine ⟨0, by simp, ?_, ?_⟩
        · intro ⟨h1, h2⟩
          apply hexit
          refine ⟨by simpa using h2, ?_⟩
          have : rest = [] := by simpa using h1
          simp [this]
        · simpa [splitHit, accT0, accT1] using hadm
      · rw [if_neg hadm, ih]
        constructor
        · rintro ⟨k, hk, hne, hs⟩
          refine ⟨k + 1, by simpa using hk, ?_, ?_⟩
          · simpa using hne
          · simp only [splitHit, accT0, accT1, List.take_succ_cons, sizeOf_cons, List.foldl_cons] at hs ⊢
            rw [show n0 + (2 ^ i + sizeOf (List.take (k + 1) rest)) = n0 + 2 ^ i + sizeOf (List.take (k + 1) rest) by omega,
              show n1 - (2 ^ i + sizeOf (List.take (k + 1) rest)) = n1 - 2 ^ i - sizeOf (List.take (k + 1) rest) by omega]
            exact hs
        · rintro ⟨k, hk, hne, hs⟩
          cases k with
          | zero =>
            exfalso; apply hadm
            simpa [splitHit, accT0, accT1] using hs
          | succ k =>
            refine ⟨k, by simpa using hk, by simpa using hne, ?_⟩
            simp only [splitHit, accT0, accT1, List.take_succ_cons, sizeOf_cons, List.foldl_cons] at hs ⊢
            rw [show n0 + (2 ^ i + sizeOf (List.take (k + 1) rest)) = n0 + 2 ^ i + sizeOf (List.take (k + 1) rest) by omega,
              show n1 - (2 ^ i + sizeOf (List.take (k + 1) rest)) = n1 - 2 ^ i - sizeOf (List.take (k + 1) rest) by omega] at hs
            exact hs

/-- a hit leaves at least `subwindow_size_thresh ≥ 1` samples behind the oldest bucket -/
theorem scan_true_bound (c : Cfg α) (s : State α) (hsub : 1 ≤ c.subThresh) (fl : List (Nat × Bucket α)) :
    ∀ (n0 n1 : Nat) (t0 t1 : α), scan c s n0 n1 t0 t1 fl = true →
      ∃ e rest, fl = e :: rest ∧ 2 ^ e.1 + c.subThresh ≤ n1 := by
  induction fl with
  | nil => intro n0 n1 t0 t1 h; simp [scan] at h
  | cons e rest ih =>
    intro n0 n1 t0 t1 h
    obtain ⟨i, b⟩ := e
    refine ⟨(i, b), rest, rfl, ?_⟩
    rw [scan] at h
    split at h
    · simp at h
    · split at h
      · rename_i hadm
        obtain ⟨_, h2, _⟩ := hadm
        simp only
        generalize 2 ^ i = p at *
        omega
      · obtain ⟨e', rest', _, hb⟩ := ih _ _ _ _ h
        have : 0 < 2 ^ e'.1 := Nat.pow_pos (by omega)
        simp only at hb ⊢
        generalize 2 ^ i = p at *
        generalize 2 ^ e'.1 = q at *
        omega

/-! ### the cut loop -/

theorem hit_cut (c : Cfg α) (hsub : 1 ≤ c.subThresh) (s : State α) (h : Shape s.rows s.W)
    (hh : hit c s = true) :
    ∃ j b rest, flat s.rows = (j, b) :: rest ∧ 2 ^ j + c.subThresh ≤ s.W ∧
      Shape (cut s).rows (cut s).W ∧ flat (cut s).rows = rest ∧ (cut s).W = s.W - 2 ^ j ∧
      (cut s).total = s.total ∧ (cut s).drift = .drift ∧
      (cut s).recs = (some (s.total - (cut s).W), some (s.total - 1)) := by
  obtain ⟨e, rest, hf, hb⟩ := scan_true_bound c s hsub _ _ _ _ _ hh
  obtain ⟨j, b⟩ := e
  have hlt : 2 ^ j < s.W := by simp only at hb; omega
  obtain ⟨h1, h2, h3, h4, _, _⟩ := shape_removeLast s h j b rest hf hlt
  exact ⟨j, b, rest, hf, hb, h1, h2, h3, h4, rfl, by simp only [cut]; rw [h4]⟩

/-- result of the `while start_from_empty_subwindow` loop: `k` oldest buckets were dropped -/
structure LoopResult (c : Cfg α) (s s' : State α) (k : Nat) : Prop where
  shape : Shape s'.rows s'.W
  flat_eq : flat s'.rows = (flat s.rows).drop k
  width : s'.W + sizeOf ((flat s.rows).take k) = s.W
  total : s'.total = s.total
  settled : hit c s' = false
  zero : k = 0 → s' = s
  pos : 0 < k → hit c s = true ∧ s'.drift = .drift ∧ c.subThresh ≤ s'.W ∧
    s'.recs = (some (s.total - s'.W), some (s.total - 1))

theorem shrinkLoop_spec (c : Cfg α) (hsub : 1 ≤ c.subThresh) : ∀ (fuel : Nat) (s : State α),
    Shape s.rows s.W → (flat s.rows).length ≤ fuel → ∃ k, LoopResult c s (shrinkLoop c fuel s) k := by
  intro fuel
  induction fuel with
  | zero =>
    intro s h hlen
    have hnil : flat s.rows = [] := by
      cases hfl : flat s.rows with
      | nil => rfl
      | cons a l => rw [hfl] at hlen; simp at hlen
    refine ⟨0, ?_⟩
    simp only [shrinkLoop]
    exact { shape := h, flat_eq := by simp, width := by simp, total := rfl,
            settled := by simp [hit, hnil, scan], zero := fun _ => rfl,
            pos := fun hk => absurd hk (by omega) }
  | succ fuel ih =>
    intro s h hlen
    rw [shrinkLoop]
    by_cases hh : hit c s = true
    · rw [if_pos hh]
      obtain ⟨j, b, rest, hf, hb, h1, h2, h3, h4, h5, h6⟩ := hit_cut c hsub s h hh
      have hlen' : (flat (cut s).rows).length ≤ fuel := by
        rw [h2]; rw [hf] at hlen; simpa using hlen
      obtain ⟨k, r⟩ := ih (cut s) h1 hlen'
      refine ⟨k + 1, ?_⟩
      have hw : (shrinkLoop c fuel (cut s)).W + sizeOf (List.take k rest) = s.W - 2 ^ j := by
        have := r.width; rw [h2, h3] at this; exact this
      have hle : c.subThresh ≤ (shrinkLoop c fuel (cut s)).W ∧
          (shrinkLoop c fuel (cut s)).drift = .drift ∧
          (shrinkLoop c fuel (cut s)).recs = (some (s.total - (shrinkLoop c fuel (cut s)).W), some (s.total - 1)) := by
        rcases Nat.eq_zero_or_pos k with hk | hk
        · rw [r.zero hk]; refine ⟨?_, h5, h6⟩; rw [h3]; omega
        · obtain ⟨_, p2, p3, p4⟩ := r.pos hk
          rw [h4] at p4
          exact ⟨p3, p2, p4⟩
      exact { shape := r.shape
              flat_eq := by rw [r.flat_eq, h2, hf]; simp
              width := by rw [hf]; simp only [List.take_succ_cons, sizeOf_cons]; omega
              total := by rw [r.total, h4]
              settled := r.settled
              zero := fun hk => absurd hk (by omega)
              pos := fun _ => ⟨hh, hle.2.1, hle.1, hle.2.2⟩ }
    · rw [if_neg hh]
      refine ⟨0, ?_⟩
      exact { shape := h, flat_eq := by simp, width := by simp, total := rfl,
              settled := by simpa using hh, zero := fun _ => rfl,
              pos := fun hk => absurd hk (by omega) }

end full

end MV.Adwin
