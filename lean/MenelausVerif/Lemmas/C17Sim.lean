/-
  C17 — generic part for detectors whose pre-alarm state *does* depend on the threshold
  (kdq-tree's critical value and persistence counter, LFR's bounds cache, HDM's recorded β) or whose
  two runs consume different oracle inputs (HDM `tstat`: the two t critical values).

  `sim_first_drift_mono`: a simulation relation `R` between the state of the run under the looser
  setting and the state of the run under the stricter one which (i) is kept by every pair of steps
  as long as the *looser* run does not report drift and (ii) forces "strict reports drift ⇒ loose
  reports drift" at every step, makes the first drift of the looser run no later than that of the
  stricter run.  The two runs may have different state types, different input types (related
  position by position through `Q`) and different step functions.
-/
import MenelausVerif.Props.C17
namespace MV.Mono

/-- two lists of the same length whose entries are related position by position -/
inductive Zip {ιL ιS : Type} (Q : ιL → ιS → Prop) : List ιL → List ιS → Prop
  | nil : Zip Q [] []
  | cons {x y xs ys} : Q x y → Zip Q xs ys → Zip Q (x :: xs) (y :: ys)

theorem Zip.refl {ι : Type} {Q : ι → ι → Prop} (h : ∀ x, Q x x) : ∀ xs : List ι, Zip Q xs xs
  | [] => Zip.nil
  | x :: xs => Zip.cons (h x) (Zip.refl h xs)

theorem Zip.append {ιL ιS : Type} {Q : ιL → ιS → Prop} {xs xs' : List ιL} {ys ys' : List ιS}
    (h : Zip Q xs ys) (h' : Zip Q xs' ys') : Zip Q (xs ++ xs') (ys ++ ys') := by
  induction h with
  | nil => exact h'
  | cons hq _ ih => exact Zip.cons hq ih

theorem sim_first_drift_mono {σL σS ιL ιS : Type}
    (stepL : σL → ιL → σL) (stepS : σS → ιS → σS) (dL : σL → Bool) (dS : σS → Bool)
    (R : σL → σS → Prop) (Q : ιL → ιS → Prop)
    (h : ∀ a b x y, R a b → Q x y →
      (dS (stepS b y) = true → dL (stepL a x) = true) ∧
      (dL (stepL a x) = false → R (stepL a x) (stepS b y))) :
    ∀ (xs : List ιL) (ys : List ιS), Zip Q xs ys → ∀ (a : σL) (b : σS), R a b →
      NoLater (firstIdx (driftTrace stepL dL a xs)) (firstIdx (driftTrace stepS dS b ys)) := by
  intro xs ys hxy
  induction hxy with
  | nil => intro a b _; simp [driftTrace, firstIdx, NoLater]
  | @cons x y xs ys hq _ ih =>
    intro a b hR
    obtain ⟨h1, h2⟩ := h a b x y hR hq
    simp only [driftTrace]
    cases hb : dS (stepS b y) with
    | true => simp [h1 hb, firstIdx, NoLater]
    | false =>
      cases ha : dL (stepL a x) with
      | true =>
        simp only [firstIdx]
        cases firstIdx (driftTrace stepS dS (stepS b y) ys) <;> simp [NoLater]
      | false =>
        have ih' := ih (stepL a x) (stepS b y) (h2 ha)
        simp only [firstIdx]
        revert ih'
        cases firstIdx (driftTrace stepL dL (stepL a x) xs) <;>
          cases firstIdx (driftTrace stepS dS (stepS b y) ys) <;> simp [NoLater]

/-- the same with one input list seen by both runs -/
theorem sim_first_drift_mono_same {σL σS ι : Type}
    (stepL : σL → ι → σL) (stepS : σS → ι → σS) (dL : σL → Bool) (dS : σS → Bool)
    (R : σL → σS → Prop)
    (h : ∀ a b x, R a b →
      (dS (stepS b x) = true → dL (stepL a x) = true) ∧
      (dL (stepL a x) = false → R (stepL a x) (stepS b x)))
    (xs : List ι) (a : σL) (b : σS) (hR : R a b) :
    NoLater (firstIdx (driftTrace stepL dL a xs)) (firstIdx (driftTrace stepS dS b xs)) := by
  refine sim_first_drift_mono stepL stepS dL dS R (fun x y => x = y) ?_ xs xs ?_ a b hR
  · rintro a b x _ hR rfl; exact h a b x hR
  · exact Zip.refl (fun _ => rfl) xs

/-- a relation kept by every pair of steps is kept along the whole history (no drift condition):
    used for the warning clauses -/
theorem foldl_rel₂ {σL σS ι : Type} (f : σL → ι → σL) (g : σS → ι → σS) (R : σL → σS → Prop)
    (h : ∀ a b x, R a b → R (f a x) (g b x)) : ∀ (xs : List ι) (a : σL) (b : σS), R a b →
    R (xs.foldl f a) (xs.foldl g b) := by
  intro xs
  induction xs with
  | nil => intro a b hab; exact hab
  | cons x xs ih => intro a b hab; exact ih _ _ (h a b x hab)

end MV.Mono
