/-
  Trace semantics of the counters and of `retraining_recs` for detectors that are
  driven by one `Bool` per update and reset themselves on the update after a drift.

  Generic in the state type: a detector supplies its observable projections
  (`Obs`) and proves *local* (one-step) rules; this file turns them, by induction
  over arbitrary histories and across epochs, into statements about whole
  histories: where the current epoch starts, which index `retraining_recs[0]`
  holds (first warning/drift index of the epoch — DDM, EDDM; start of the current
  uninterrupted warning/drift run — STEPD) and when `retraining_recs[1]` is set.

  No Mathlib; nothing here depends on the numeric carrier.
-/
import MenelausVerif.Base.Drift
import MenelausVerif.Model.ErrRecs
namespace MV.ErrTrace
open MV

/-- the observables the trace semantics talks about -/
structure Obs (σ : Type) where
  drift : σ → Drift
  total : σ → Nat
  since : σ → Nat
  recs : σ → Recs

theorem snoc_induction {β : Type} {P : List β → Prop} (nil : P [])
    (snoc : ∀ xs x, P xs → P (xs ++ [x])) : ∀ xs, P xs := by
  intro xs
  have h : ∀ ys : List β, P ys.reverse := by
    intro ys
    induction ys with
    | nil => simpa using nil
    | cons y ys ih => simpa using snoc _ y ih
  simpa using h xs.reverse

section
variable {σ : Type} (step : σ → Bool → σ) (init : σ) (o : Obs σ)

/-- the state after feeding the whole history -/
def run (xs : List Bool) : σ := xs.foldl step init

@[simp] theorem run_nil : run step init [] = init := rfl

theorem run_snoc (xs : List Bool) (x : Bool) :
    run step init (xs ++ [x]) = step (run step init xs) x := by
  simp [run, List.foldl_append]

/-- `drift_state` reported after update number `j` (0-based) of the history `xs` -/
def stateAt (xs : List Bool) (j : Nat) : Drift := o.drift (run step init (xs.take (j + 1)))

theorem stateAt_snoc_lt {xs : List Bool} {x : Bool} {j : Nat} (h : j < xs.length) :
    stateAt step init o (xs ++ [x]) j = stateAt step init o xs j := by
  unfold stateAt
  rw [List.take_append_of_le_length (by omega)]

theorem stateAt_snoc_eq (xs : List Bool) (x : Bool) :
    stateAt step init o (xs ++ [x]) xs.length = o.drift (step (run step init xs) x) := by
  unfold stateAt
  rw [List.take_of_length_le (by simp), run_snoc]

theorem stateAt_last {xs : List Bool} (h : xs ≠ []) :
    stateAt step init o xs (xs.length - 1) = o.drift (run step init xs) := by
  unfold stateAt
  have : 0 < xs.length := List.length_pos_iff.mpr h
  rw [List.take_of_length_le (by omega)]

/-! ### Counters and epochs -/

/-- local rules of the two counters -/
structure Counters : Prop where
  total0 : o.total init = 0
  since0 : o.since init = 0
  drift0 : o.drift init = .none
  recs0 : o.recs init = Recs.empty
  total : ∀ s x, o.total (step s x) = o.total s + 1
  since : ∀ s x, o.since (step s x) = (if o.drift s = .drift then 0 else o.since s) + 1

/-- what the counters mean on a whole history: `total` is its length and the last
    `since` updates form the current epoch — it begins right after the latest
    earlier drift (or at the very beginning) and contains no drift before its last
    position. -/
structure EpochSem (xs : List Bool) : Prop where
  total : o.total (run step init xs) = xs.length
  since_le : o.since (run step init xs) ≤ xs.length
  since_pos : xs ≠ [] → 1 ≤ o.since (run step init xs)
  inside : ∀ j, xs.length - o.since (run step init xs) ≤ j → j + 1 < xs.length →
    stateAt step init o xs j ≠ .drift
  begin_ : xs.length - o.since (run step init xs) = 0 ∨
    stateAt step init o xs (xs.length - o.since (run step init xs) - 1) = .drift

theorem epochSem (h : Counters step init o) : ∀ xs, EpochSem step init o xs := by
  apply snoc_induction
  · refine ⟨by simp [h.total0], by simp [h.since0], by simp, ?_, ?_⟩
    · intro j _ hj; simp at hj
    · left; simp
  · intro xs x ih
    have hrun := run_snoc step init xs x
    have hs := h.since (run step init xs) x
    have ht := h.total (run step init xs) x
    have hlen : (xs ++ [x]).length = xs.length + 1 := by simp
    by_cases hd : o.drift (run step init xs) = .drift
    · -- the update after a drift opens a new epoch
      have hne : xs ≠ [] := by
        intro he; subst he; rw [run_nil, h.drift0] at hd; cases hd
      have hpos : 0 < xs.length := List.length_pos_iff.mpr hne
      rw [if_pos hd] at hs
      refine ⟨by rw [hrun, ht, ih.total, hlen], by rw [hrun, hs, hlen]; omega,
        fun _ => by rw [hrun, hs]; omega, ?_, ?_⟩
      · intro j h1 h2; rw [hrun, hs, hlen] at h1; rw [hlen] at h2; omega
      · right
        rw [hrun, hs, hlen]
        have : xs.length + 1 - (0 + 1) - 1 = xs.length - 1 := by omega
        rw [this, stateAt_snoc_lt step init o (by omega), stateAt_last step init o hne]
        exact hd
    · rw [if_neg hd] at hs
      have hle := ih.since_le
      have hst : (xs ++ [x]).length - o.since (run step init (xs ++ [x]))
          = xs.length - o.since (run step init xs) := by rw [hrun, hs, hlen]; omega
      refine ⟨by rw [hrun, ht, ih.total, hlen], by rw [hrun, hs, hlen]; omega,
        fun _ => by rw [hrun, hs]; omega, ?_, ?_⟩
      · intro j h1 h2
        rw [hst] at h1; rw [hlen] at h2
        by_cases hj : j + 1 < xs.length
        · rw [stateAt_snoc_lt step init o (by omega)]; exact ih.inside j h1 hj
        · have hne : xs ≠ [] := by intro he; subst he; simp at h2
          have : j = xs.length - 1 := by omega
          subst this
          rw [stateAt_snoc_lt step init o (by omega), stateAt_last step init o hne]; exact hd
      · rw [hst]
        rcases ih.begin_ with h0 | hb
        · left; exact h0
        · by_cases h0 : xs.length - o.since (run step init xs) = 0
          · left; exact h0
          · right; rw [stateAt_snoc_lt step init o (by omega)]; exact hb

/-! ### `retraining_recs`, DDM / EDDM rule -/

/-- local rule of DDM and EDDM, under a detector-specific step invariant `Inv` -/
structure FirstRule (Inv : σ → Prop) : Prop where
  inv0 : Inv init
  inv : ∀ s x, Inv s → Inv (step s x)
  recs : ∀ s x, Inv s → o.recs (step s x) =
    incRecsFirst (o.drift (step s x)) (o.total s)
      (if o.drift s = .drift then Recs.empty else o.recs s)

theorem FirstRule.inv_run {Inv : σ → Prop} (r : FirstRule step init o Inv) :
    ∀ xs, Inv (run step init xs) := by
  apply snoc_induction
  · exact r.inv0
  · intro xs x ih; rw [run_snoc]; exact r.inv _ _ ih

/-- `retraining_recs[0]` is the index of the first update of the current epoch after
    which the state was `warning` or `drift` (`None` when there was none);
    `retraining_recs[1]` is set exactly while the state is `drift`, to the index of
    that update. -/
structure FirstSem (xs : List Bool) : Prop where
  none_ : (o.recs (run step init xs)).1 = none →
    ∀ j, xs.length - o.since (run step init xs) ≤ j → j < xs.length → stateAt step init o xs j = .none
  some_ : ∀ i, (o.recs (run step init xs)).1 = some i →
    xs.length - o.since (run step init xs) ≤ i ∧ i < xs.length ∧ stateAt step init o xs i ≠ .none ∧
    ∀ j, xs.length - o.since (run step init xs) ≤ j → j < i → stateAt step init o xs j = .none
  snd : ∀ i, (o.recs (run step init xs)).2 = some i ↔
    (o.drift (run step init xs) = .drift ∧ i + 1 = xs.length)

/-- constructor with the state, the length and the epoch start named -/
theorem FirstSem.of {xs : List Bool} (s : σ) (n st : Nat) (hs : run step init xs = s) (hn : xs.length = n)
    (hst : n - o.since s = st)
    (none_ : (o.recs s).1 = none → ∀ j, st ≤ j → j < n → stateAt step init o xs j = .none)
    (some_ : ∀ i, (o.recs s).1 = some i →
      st ≤ i ∧ i < n ∧ stateAt step init o xs i ≠ .none ∧ ∀ j, st ≤ j → j < i → stateAt step init o xs j = .none)
    (snd : ∀ i, (o.recs s).2 = some i ↔ (o.drift s = .drift ∧ i + 1 = n)) :
    FirstSem step init o xs := by
  subst hs hn hst
  exact ⟨none_, some_, snd⟩

theorem firstSem {Inv : σ → Prop} (h : Counters step init o) (r : FirstRule step init o Inv) :
    ∀ xs, FirstSem step init o xs := by
  apply snoc_induction
  · refine ⟨?_, ?_, ?_⟩
    · intro _ j _ hj; simp at hj
    · intro i hi; rw [run_nil, h.recs0] at hi; cases hi
    · intro i; rw [run_nil, h.recs0, h.drift0]; simp [Recs.empty]
  · intro xs x ih
    have E := epochSem step init o h xs
    have hrun := run_snoc step init xs x
    have hs := h.since (run step init xs) x
    have hr := r.recs (run step init xs) x (r.inv_run step init o xs)
    have hlen : (xs ++ [x]).length = xs.length + 1 := by simp
    have hlast := stateAt_snoc_eq step init o xs x
    rw [E.total] at hr
    have hold : ∀ j, j < xs.length → stateAt step init o (xs ++ [x]) j = stateAt step init o xs j :=
      fun j hj => stateAt_snoc_lt step init o hj
    by_cases hd : o.drift (run step init xs) = .drift
    · rw [if_pos hd] at hs hr
      have hst : xs.length + 1 - o.since (step (run step init xs) x) = xs.length := by
        rw [hs]; omega
      refine FirstSem.of step init o _ _ _ hrun hlen hst ?_ ?_ ?_
      · intro h1 j h2 h3
        have : j = xs.length := by omega
        subst this; rw [hlast]
        cases hd' : o.drift (step (run step init xs) x) <;> rw [hd'] at hr <;>
          simp [incRecsFirst, Recs.empty, hr] at h1 ⊢
      · intro i hi
        cases hd' : o.drift (step (run step init xs) x) <;> rw [hd'] at hr <;>
          simp only [incRecsFirst, Recs.empty] at hr <;> rw [hr] at hi
        · cases hi
        · simp only [Option.some.injEq] at hi; subst hi
          exact ⟨by omega, by omega, by rw [hlast, hd']; simp, fun j _ _ => by omega⟩
        · simp only [Option.some.injEq] at hi; subst hi
          exact ⟨by omega, by omega, by rw [hlast, hd']; simp, fun j _ _ => by omega⟩
      · intro i
        cases hd' : o.drift (step (run step init xs) x) <;> rw [hd'] at hr <;>
          simp only [incRecsFirst, Recs.empty] at hr <;> rw [hr] <;> simp
        omega
    · rw [if_neg hd] at hs hr
      have hle := E.since_le
      have hst : xs.length + 1 - o.since (step (run step init xs) x)
          = xs.length - o.since (run step init xs) := by rw [hs]; omega
      have hb : (o.recs (run step init xs)).2 = none := by
        cases hb : (o.recs (run step init xs)).2 with
        | none => rfl
        | some i => exact absurd ((ih.snd i).mp hb).1 hd
      refine FirstSem.of step init o _ _ _ hrun hlen hst ?_ ?_ ?_
      · intro h1 j h2 h3
        cases ha : (o.recs (run step init xs)).1 with
        | some a =>
          exfalso
          cases hd' : o.drift (step (run step init xs) x) <;> rw [hd'] at hr <;>
            simp [incRecsFirst, ha, hr] at h1
        | none =>
          by_cases hj : j < xs.length
          · rw [hold j hj]; exact ih.none_ ha j h2 hj
          · have : j = xs.length := by omega
            subst this; rw [hlast]
            cases hd' : o.drift (step (run step init xs) x) <;> rw [hd'] at hr <;>
              simp [incRecsFirst, ha, hr] at h1 ⊢
      · intro i hi
        cases ha : (o.recs (run step init xs)).1 with
        | some a =>
          obtain ⟨h1, h2, h3, h4⟩ := ih.some_ a ha
          have key : (o.recs (step (run step init xs) x)).1 = some a := by
            rw [hr]; cases o.drift (step (run step init xs) x) <;> simp [incRecsFirst, ha]
          rw [key] at hi; simp only [Option.some.injEq] at hi; subst hi
          exact ⟨h1, by omega, by rw [hold _ h2]; exact h3,
            fun j hj1 hj2 => by rw [hold j (by omega)]; exact h4 j hj1 hj2⟩
        | none =>
          have hnone := ih.none_ ha
          cases hd' : o.drift (step (run step init xs) x) <;> rw [hd'] at hr <;>
            simp only [incRecsFirst, ha] at hr <;> rw [hr] at hi
          · rw [ha] at hi; cases hi
          · simp only [Option.some.injEq] at hi; subst hi
            exact ⟨by omega, by omega, by rw [hlast, hd']; simp,
              fun j h1 h2 => by rw [hold j h2]; exact hnone j h1 h2⟩
          · simp only [Option.some.injEq] at hi; subst hi
            exact ⟨by omega, by omega, by rw [hlast, hd']; simp,
              fun j h1 h2 => by rw [hold j h2]; exact hnone j h1 h2⟩
      · intro i
        cases ha : (o.recs (run step init xs)).1 <;>
        cases hd' : o.drift (step (run step init xs) x) <;> rw [hd'] at hr <;>
          simp only [incRecsFirst, ha, hb] at hr <;> rw [hr] <;> simp [hb] <;> omega


/-- `retraining_recs[0] = i` **iff** `i` is the first index of the current epoch with a
    non-`None` state -/
theorem FirstSem.iff {xs : List Bool} (F : FirstSem step init o xs) (i : Nat) :
    (o.recs (run step init xs)).1 = some i ↔
      (xs.length - o.since (run step init xs) ≤ i ∧ i < xs.length ∧ stateAt step init o xs i ≠ .none ∧
       ∀ j, xs.length - o.since (run step init xs) ≤ j → j < i → stateAt step init o xs j = .none) := by
  constructor
  · exact F.some_ i
  · intro ⟨h1, h2, h3, h4⟩
    cases ha : (o.recs (run step init xs)).1 with
    | none => exact absurd (F.none_ ha i h1 h2) h3
    | some a =>
      obtain ⟨g1, g2, g3, g4⟩ := F.some_ a ha
      by_cases hlt : i < a
      · exact absurd (g4 i h1 hlt) h3
      · by_cases hgt : a < i
        · exact absurd (h4 a g1 hgt) g3
        · have : a = i := by omega
          rw [this]

/-! ### The samples of the current epoch -/

/-- the inputs of the current epoch: the last `since` samples -/
def epoch (xs : List Bool) : List Bool := xs.drop (xs.length - o.since (run step init xs))

theorem epoch_length (h : Counters step init o) (xs : List Bool) :
    (epoch step init o xs).length = o.since (run step init xs) := by
  have := (epochSem step init o h xs).since_le
  simp [epoch]; omega

theorem epoch_snoc (h : Counters step init o) (xs : List Bool) (x : Bool) :
    epoch step init o (xs ++ [x]) =
      (if o.drift (run step init xs) = .drift then [] else epoch step init o xs) ++ [x] := by
  have hle := (epochSem step init o h xs).since_le
  have hs := h.since (run step init xs) x
  unfold epoch
  rw [run_snoc, hs]
  by_cases hd : o.drift (run step init xs) = .drift
  · simp [hd]
  · simp only [hd, if_false, List.length_append, List.length_singleton]
    have : xs.length + 1 - (o.since (run step init xs) + 1) = xs.length - o.since (run step init xs) := by omega
    rw [this, List.drop_append_of_le_length (by omega)]

/-! ### `retraining_recs`, STEPD rule -/

/-- local rule of STEPD, under a detector-specific step invariant `Inv` -/
structure RunRule (Inv : σ → Prop) : Prop where
  inv0 : Inv init
  inv : ∀ s x, Inv s → Inv (step s x)
  recs_none : ∀ s x, Inv s → o.drift (step s x) = .none → o.recs (step s x) = Recs.empty
  recs_some : ∀ s x, Inv s → o.drift (step s x) ≠ .none → o.recs (step s x) =
    incRecsRun (o.total s) (if o.drift s = .drift then Recs.empty else o.recs s)

theorem RunRule.inv_run {Inv : σ → Prop} (r : RunRule step init o Inv) :
    ∀ xs, Inv (run step init xs) := by
  apply snoc_induction
  · exact r.inv0
  · intro xs x ih; rw [run_snoc]; exact r.inv _ _ ih

/-- `retraining_recs` is `[None, None]` while the state is `None`; otherwise it is
    `[a, k]` with `k` the index of the latest update and `a` the index at which the
    current uninterrupted run of warning/drift states began (inside the current
    epoch: the state before `a` was `None`, or `a` is the epoch's first update). -/
structure RunSem (xs : List Bool) : Prop where
  none_ : o.drift (run step init xs) = .none → o.recs (run step init xs) = Recs.empty
  some_ : o.drift (run step init xs) ≠ .none → ∃ a,
    o.recs (run step init xs) = (some a, some (xs.length - 1)) ∧
    xs.length - o.since (run step init xs) ≤ a ∧ a < xs.length ∧
    (∀ j, a ≤ j → j < xs.length → stateAt step init o xs j ≠ .none) ∧
    (a = xs.length - o.since (run step init xs) ∨ stateAt step init o xs (a - 1) = .none)

theorem runSem {Inv : σ → Prop} (h : Counters step init o) (r : RunRule step init o Inv) :
    ∀ xs, RunSem step init o xs := by
  apply snoc_induction
  · refine ⟨fun _ => by rw [run_nil, h.recs0], fun hd => ?_⟩
    rw [run_nil, h.drift0] at hd; exact absurd rfl hd
  · intro xs x ih
    have E := epochSem step init o h xs
    have hrun := run_snoc step init xs x
    have hs := h.since (run step init xs) x
    have hI := r.inv_run step init o xs
    have hlen : (xs ++ [x]).length = xs.length + 1 := by simp
    have hlast := stateAt_snoc_eq step init o xs x
    have hold : ∀ j, j < xs.length → stateAt step init o (xs ++ [x]) j = stateAt step init o xs j :=
      fun j hj => stateAt_snoc_lt step init o hj
    refine ⟨fun hd' => by rw [hrun] at hd' ⊢; exact r.recs_none _ x hI hd', fun hd' => ?_⟩
    rw [hrun] at hd'
    have hr := r.recs_some _ x hI hd'
    rw [E.total] at hr
    rw [hrun, hlen]
    by_cases hd : o.drift (run step init xs) = .drift
    · rw [if_pos hd] at hs hr
      rw [hs]
      refine ⟨xs.length, by rw [hr]; simp [incRecsRun, Recs.empty], by omega, by omega, ?_, Or.inl (by omega)⟩
      intro j h1 h2
      have : j = xs.length := by omega
      subst this; rw [hlast]; exact hd'
    · rw [if_neg hd] at hs hr
      have hle := E.since_le
      rw [hs]
      have hst : xs.length + 1 - (o.since (run step init xs) + 1) = xs.length - o.since (run step init xs) := by omega
      rw [hst]
      by_cases hn : o.drift (run step init xs) = .none
      · rw [ih.none_ hn] at hr
        refine ⟨xs.length, by rw [hr]; simp [incRecsRun, Recs.empty], by omega, by omega, ?_, ?_⟩
        · intro j h1 h2
          have : j = xs.length := by omega
          subst this; rw [hlast]; exact hd'
        · by_cases h0 : xs = []
          · left; subst h0; simp
          · right
            have : 0 < xs.length := List.length_pos_iff.mpr h0
            rw [hold _ (by omega), stateAt_last step init o h0]; exact hn
      · obtain ⟨a, h1, h2, h3, h4, h5⟩ := ih.some_ hn
        rw [h1] at hr
        refine ⟨a, ?_, h2, by omega, ?_, ?_⟩
        · rw [hr]; simp only [incRecsRun, Option.map]
          have : xs.length - 1 + 1 = xs.length + 1 - 1 := by omega
          rw [this]
        · intro j hj1 hj2
          by_cases hj : j < xs.length
          · rw [hold j hj]; exact h4 j hj1 hj
          · have : j = xs.length := by omega
            subst this; rw [hlast]; exact hd'
        · rcases h5 with h5 | h5
          · left; exact h5
          · by_cases h0 : a = xs.length - o.since (run step init xs)
            · left; exact h0
            · right; rw [hold _ (by omega)]; exact h5

end
end MV.ErrTrace
