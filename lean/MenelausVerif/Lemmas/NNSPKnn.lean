/-
  Lemmas for C10 that use no arithmetic law of the carrier: weights of a k-regular
  adjacency matrix, `np.dot(v, M)` as column sums, meaning of the k-NN validation
  predicate, positivity of the distance denominators, permutations.
-/
import MenelausVerif.Model.NNSP
import Mathlib.Data.List.Basic
import Mathlib.Data.List.Perm.Subperm
import Mathlib.Data.List.Range
import Mathlib.Algebra.Order.BigOperators.Group.List
import Mathlib.Algebra.Order.Group.Nat
namespace MV.NNSP

/-! ### weights -/

theorem foldl_lcm_const (k : Nat) (ws : List Nat) (h : ∀ w ∈ ws, w = k) (acc : Nat) (hacc : acc = 1 ∨ acc = k) :
    ws.foldl Nat.lcm acc = if ws = [] then acc else k := by
  induction ws generalizing acc with
  | nil => simp
  | cons w ws ih =>
    have hw : w = k := h w (by simp)
    subst hw
    have hl : Nat.lcm acc w = w := by rcases hacc with rfl | rfl <;> simp
    simp only [List.foldl_cons, hl]
    rw [ih (fun x hx => h x (by simp [hx])) w (Or.inr rfl)]
    simp

theorem map_zip_map_self {β γ δ : Type} (f : β → γ) (g : γ × β → δ) (l : List β) :
    (List.zip (l.map f) l).map g = l.map (fun x => g (f x, x)) := by
  induction l with
  | nil => simp
  | cons x xs ih => simp [ih]

theorem nnpsMatrix_uniform (adj : List (List Bool)) (k : Nat) (hk : 0 < k)
    (h : ∀ row ∈ adj, row.count true = k) :
    nnpsMatrix adj = adj.map (fun row => row.map (fun b => if b then 1 else 0)) := by
  simp only [nnpsMatrix, rowSums]
  rw [map_zip_map_self]
  apply List.map_congr_left
  intro row hrow
  have hq : lcmAll (adj.map (·.count true)) = k := by
    unfold lcmAll
    rw [foldl_lcm_const k _ (by
      intro w hw
      obtain ⟨r, hr, rfl⟩ := List.mem_map.mp hw
      exact h r hr) 1 (Or.inl rfl)]
    have : adj ≠ [] := List.ne_nil_of_mem hrow
    simp [this]
  simp only [hq, h row hrow, Nat.div_self hk, Nat.one_mul]

/-! ### `np.dot(v, M)` is the vector of column sums of the selected rows -/

/-- declarative column sum: Σ_i v[i]·M[i][j] -/
def colSum (v : List Bool) (M : List (List Nat)) (j : Nat) : Nat :=
  ((List.zip v M).map (fun x => if x.1 then x.2.getD j 0 else 0)).sum

theorem foldl_vec_spec (n j : Nat) (hj : j < n) (l : List (Bool × List Nat)) (hl : ∀ x ∈ l, x.2.length = n)
    (acc : List Nat) (hacc : acc.length = n) :
    (l.foldl (fun acc x => if x.1 then List.zipWith (· + ·) acc x.2 else acc) acc).getD j 0 =
      acc.getD j 0 + (l.map (fun x => if x.1 then x.2.getD j 0 else 0)).sum := by
  induction l generalizing acc with
  | nil => simp
  | cons x xs ih =>
    simp only [List.foldl_cons, List.map_cons, List.sum_cons]
    have hx : x.2.length = n := hl x (by simp)
    have hxs : ∀ y ∈ xs, y.2.length = n := fun y hy => hl y (by simp [hy])
    by_cases hb : x.1 = true
    · simp only [hb, if_true]
      rw [ih hxs _ (by simp [List.length_zipWith, hacc, hx])]
      have : (List.zipWith (· + ·) acc x.2).getD j 0 = acc.getD j 0 + x.2.getD j 0 := by
        simp only [List.getD_eq_getElem?_getD, List.getElem?_zipWith]
        rw [List.getElem?_eq_getElem (by omega : j < acc.length), List.getElem?_eq_getElem (by omega : j < x.2.length)]
        simp
      rw [this]; omega
    · simp only [hb, Bool.false_eq_true, if_false]
      rw [ih hxs _ hacc]; simp

theorem vecMat_spec (v : List Bool) (M : List (List Nat)) (n : Nat) (hrows : ∀ row ∈ M, row.length = n)
    (j : Nat) (hj : j < n) : (vecMat v M n).getD j 0 = colSum v M j := by
  unfold vecMat colSum
  rw [foldl_vec_spec n j hj _ (fun x hx => hrows x.2 (List.of_mem_zip hx).2) _ (by simp)]
  simp [hj]

theorem colSum_ge (v : List Bool) (M : List (List Nat)) (j i : Nat) (hv : v[i]? = some true) (row : List Nat)
    (hM : M[i]? = some row) : row.getD j 0 ≤ colSum v M j := by
  unfold colSum
  apply List.le_sum_of_mem
  apply List.mem_map.mpr
  refine ⟨(true, row), ?_, by simp⟩
  rw [List.mem_iff_getElem?]
  exact ⟨i, by rw [List.getElem?_zip_eq_some]; exact ⟨hv, hM⟩⟩

/-! ### the k-NN validation predicate -/
section Knn
variable {α : Type} [LT α] [DecidableLT α] [Add α] [Sub α] [Mul α] [NatCast α]

theorem getElem?_of_getD_true (l : List Bool) (j : Nat) (h : l.getD j false = true) : l[j]? = some true := by
  rw [List.getD_eq_getElem?_getD] at h
  cases hj : l[j]? with
  | none => simp [hj] at h
  | some b => simp [hj] at h; simp [h]

theorem getElem?_of_getD_false (l : List Bool) (j : Nat) (hj : j < l.length) (h : l.getD j false = false) :
    l[j]? = some false := by
  rw [List.getD_eq_getElem?_getD, List.getElem?_eq_getElem hj] at h
  rw [List.getElem?_eq_getElem hj]
  simpa using h

theorem rowOk_sound (k : Nat) (D : List (Row α)) (p : Row α) (i : Nat) (arow : List Bool)
    (h : rowOk k D p i arow = true) :
    arow.length = D.length ∧ arow.count true = k ∧ arow.getD i false = true ∧
    ∀ j l (hj : j < D.length) (hl : l < D.length), arow.getD j false = true → arow.getD l false = false →
      ¬ sqDist p D[l] < sqDist p D[j] := by
  unfold rowOk at h
  simp only [Bool.and_eq_true, beq_iff_eq, List.all_eq_true, Bool.not_eq_true', decide_eq_false_iff_not] at h
  obtain ⟨⟨⟨hlen, hcnt⟩, hself⟩, hall⟩ := h
  refine ⟨hlen, hcnt, hself, ?_⟩
  intro j l hj hl hjt hlf
  have hzj : (true, sqDist p D[j]) ∈ List.zip arow (D.map (sqDist p)) := by
    rw [List.mem_iff_getElem?]
    refine ⟨j, ?_⟩
    rw [List.getElem?_zip_eq_some]
    exact ⟨getElem?_of_getD_true arow j hjt, by simp [hj]⟩
  have hzl : (false, sqDist p D[l]) ∈ List.zip arow (D.map (sqDist p)) := by
    rw [List.mem_iff_getElem?]
    refine ⟨l, ?_⟩
    rw [List.getElem?_zip_eq_some]
    exact ⟨getElem?_of_getD_false arow l (by omega) hlf, by simp [hl]⟩
  apply hall (sqDist p D[j])
  · exact List.mem_map.mpr ⟨(true, _), List.mem_filter.mpr ⟨hzj, rfl⟩, rfl⟩
  · exact List.mem_map.mpr ⟨(false, _), List.mem_filter.mpr ⟨hzl, rfl⟩, rfl⟩

theorem isKnnRelation_sound (D : List (Row α)) (k : Nat) (adj : List (List Bool)) (h : isKnnRelation D k adj = true) :
    adj.length = D.length ∧
    ∀ i (hi : i < D.length) (hi' : i < adj.length),
      adj[i].length = D.length ∧ adj[i].count true = k ∧ adj[i].getD i false = true ∧
      ∀ j l (hj : j < D.length) (hl : l < D.length), adj[i].getD j false = true → adj[i].getD l false = false →
        ¬ sqDist D[i] D[l] < sqDist D[i] D[j] := by
  unfold isKnnRelation at h
  simp only [Bool.and_eq_true, beq_iff_eq, List.all_eq_true] at h
  obtain ⟨hlen, hall⟩ := h
  refine ⟨hlen, ?_⟩
  intro i hi hi'
  have hm : ((D[i], adj[i]), i) ∈ (List.zip D adj).zipIdx := by
    rw [List.mem_zipIdx_iff_getElem?, List.getElem?_zip_eq_some]
    simp [hi, hi']
  exact rowOk_sound k D D[i] i adj[i] (hall _ hm)

theorem rowOk_complete (k : Nat) (D : List (Row α)) (p : Row α) (i : Nat) (arow : List Bool)
    (hlen : arow.length = D.length) (hcnt : arow.count true = k) (hself : arow.getD i false = true)
    (hall : ∀ j l (hj : j < D.length) (hl : l < D.length), arow.getD j false = true → arow.getD l false = false →
      ¬ sqDist p D[l] < sqDist p D[j]) : rowOk k D p i arow = true := by
  unfold rowOk
  simp only [Bool.and_eq_true, beq_iff_eq, List.all_eq_true, Bool.not_eq_true', decide_eq_false_iff_not]
  refine ⟨⟨⟨hlen, hcnt⟩, hself⟩, ?_⟩
  intro dj hdj dl hdl
  obtain ⟨xj, hxj, rfl⟩ := List.mem_map.mp hdj
  obtain ⟨xl, hxl, rfl⟩ := List.mem_map.mp hdl
  obtain ⟨hzj, hbj⟩ := List.mem_filter.mp hxj
  obtain ⟨hzl, hbl⟩ := List.mem_filter.mp hxl
  obtain ⟨j, hj⟩ := List.mem_iff_getElem?.mp hzj
  obtain ⟨l, hl⟩ := List.mem_iff_getElem?.mp hzl
  rw [List.getElem?_zip_eq_some] at hj hl
  obtain ⟨hj1, hj2⟩ := hj
  obtain ⟨hl1, hl2⟩ := hl
  rw [List.getElem?_map] at hj2 hl2
  have hjD : j < D.length := by
    by_contra hc; simp [List.getElem?_eq_none (Nat.le_of_not_lt hc)] at hj2
  have hlD : l < D.length := by
    by_contra hc; simp [List.getElem?_eq_none (Nat.le_of_not_lt hc)] at hl2
  rw [List.getElem?_eq_getElem hjD] at hj2
  rw [List.getElem?_eq_getElem hlD] at hl2
  simp only [Option.map_some, Option.some.injEq] at hj2 hl2
  rw [← hj2, ← hl2]
  apply hall j l hjD hlD
  · rw [List.getD_eq_getElem?_getD, hj1]; simpa using hbj
  · rw [List.getD_eq_getElem?_getD, hl1]; simpa using hbl

theorem isKnnRelation_complete (D : List (Row α)) (k : Nat) (adj : List (List Bool)) (hlen : adj.length = D.length)
    (h : ∀ i (hi : i < D.length) (hi' : i < adj.length),
      adj[i].length = D.length ∧ adj[i].count true = k ∧ adj[i].getD i false = true ∧
      ∀ j l (hj : j < D.length) (hl : l < D.length), adj[i].getD j false = true → adj[i].getD l false = false →
        ¬ sqDist D[i] D[l] < sqDist D[i] D[j]) : isKnnRelation D k adj = true := by
  unfold isKnnRelation
  simp only [Bool.and_eq_true, beq_iff_eq, List.all_eq_true]
  refine ⟨hlen, ?_⟩
  intro x hx
  rw [List.mem_zipIdx_iff_getElem?, List.getElem?_zip_eq_some] at hx
  obtain ⟨h1, h2⟩ := hx
  have hi : x.2 < D.length := by
    by_contra hc; simp [List.getElem?_eq_none (Nat.le_of_not_lt hc)] at h1
  have hi' : x.2 < adj.length := by omega
  rw [List.getElem?_eq_getElem hi] at h1
  rw [List.getElem?_eq_getElem hi'] at h2
  simp only [Option.some.injEq] at h1 h2
  obtain ⟨a, b, c, d⟩ := h x.2 hi hi'
  rw [← h1, ← h2]
  exact rowOk_complete k D _ _ _ a b c d

theorem nnpsMatrix_rows (adj : List (List Bool)) :
    nnpsMatrix adj = adj.map (fun row => row.map (fun b =>
      lcmAll (adj.map (·.count true)) / row.count true * (if b then 1 else 0))) := by
  simp only [nnpsMatrix, rowSums]
  rw [map_zip_map_self]

theorem ncols_nnps_le (D : List (Row α)) (k : Nat) (adj : List (List Bool)) (hok : isKnnRelation D k adj = true) :
    ncols (nnpsMatrix adj) ≤ D.length := by
  obtain ⟨_, hrows⟩ := isKnnRelation_sound D k adj hok
  rw [nnpsMatrix_rows]
  unfold ncols
  cases adj with
  | nil => simp
  | cons r rs =>
    rename_i hlen
    have := (hrows 0 (by simp at hlen; omega) (by simp)).1
    simp at this ⊢
    omega

/-- no denominator of the distance vanishes: each pooled point is its own neighbour and is
    marked in at least one membership vector -/
theorem denominators_pos (D : List (Row α)) (k : Nat) (hk : 0 < k) (adj : List (List Bool))
    (hok : isKnnRelation D k adj = true) (v1 v2 : List Bool) (j : Nat) (hj : j < D.length)
    (hc : v1.getD j false = true ∨ v2.getD j false = true) :
    0 < (vecMat v1 (nnpsMatrix adj) (ncols (nnpsMatrix adj))).getD j 0 +
        (vecMat v2 (nnpsMatrix adj) (ncols (nnpsMatrix adj))).getD j 0 := by
  obtain ⟨hlen, hrows⟩ := isKnnRelation_sound D k adj hok
  have hj' : j < adj.length := by omega
  have hcount : ∀ row ∈ adj, row.count true = k := by
    intro row hr
    obtain ⟨i, hi, rfl⟩ := List.getElem_of_mem hr
    exact (hrows i (by omega) hi).2.1
  have hM := nnpsMatrix_uniform adj k hk hcount
  have hrl : ∀ row ∈ nnpsMatrix adj, row.length = D.length := by
    rw [hM]
    intro row hr
    obtain ⟨r, hr', rfl⟩ := List.mem_map.mp hr
    obtain ⟨i, hi, rfl⟩ := List.getElem_of_mem hr'
    simp only [List.length_map]
    exact (hrows i (by omega) hi).1
  have hnc : ncols (nnpsMatrix adj) = D.length := by
    unfold ncols
    rw [hM]
    cases adj with
    | nil => simp at hj'
    | cons r rs =>
      have := (hrows 0 (by omega) (by simp)).1
      simpa using this
  have hMj : (nnpsMatrix adj)[j]? = some (adj[j].map (fun b => if b then 1 else 0)) := by
    rw [hM]; simp [hj']
  have hjj : (adj[j].map (fun b => if b then (1 : Nat) else 0)).getD j 0 = 1 := by
    have h1 := getElem?_of_getD_true _ j (hrows j hj hj').2.2.1
    simp [List.getD_eq_getElem?_getD, List.getElem?_map, h1]
  rw [hnc, vecMat_spec _ _ _ hrl j hj, vecMat_spec _ _ _ hrl j hj]
  rcases hc with hc | hc
  · have := colSum_ge v1 (nnpsMatrix adj) j j (getElem?_of_getD_true v1 j hc) _ hMj
    omega
  · have := colSum_ge v2 (nnpsMatrix adj) j j (getElem?_of_getD_true v2 j hc) _ hMj
    omega

end Knn

/-! ### permutations -/

theorem count_true_map_not (l : List Bool) : (l.map (!·)).count true = l.count false := by
  induction l with
  | nil => simp
  | cons b bs ih => cases b <;> simp [ih]

theorem permute_counts (v : List Bool) (π : List Nat) (h : MV.NNDVI.isPerm v.length π = true) :
    (MV.NNDVI.permute v π).length = v.length ∧ (MV.NNDVI.permute v π).count true = v.count true ∧
    ((MV.NNDVI.permute v π).map (!·)).count true = v.count false := by
  unfold MV.NNDVI.isPerm at h
  simp only [Bool.and_eq_true, beq_iff_eq, List.all_eq_true, List.mem_range, List.contains_iff_mem] at h
  obtain ⟨hlen, hall⟩ := h
  have hperm : (List.range v.length).Perm π :=
    (List.nodup_range.subperm (fun i hi => hall i (List.mem_range.mp hi))).perm_of_length_le (by simp [hlen])
  have hv : (List.range v.length).map (fun i => v.getD i false) = v := by
    apply List.ext_getElem
    · simp
    · intro i h1 h2
      simp [List.getD_eq_getElem?_getD, List.getElem?_eq_getElem h2]
  have hp : v.Perm (MV.NNDVI.permute v π) := by
    unfold MV.NNDVI.permute
    have := hperm.map (fun i => v.getD i false)
    rwa [hv] at this
  refine ⟨by simp [MV.NNDVI.permute, hlen], (hp.count_eq true).symm, ?_⟩
  rw [count_true_map_not]
  exact (hp.count_eq false).symm

end MV.NNSP
