/-
  Real-number lemmas for C07 (HDDDM / CDBD): the model's `Float`-agnostic definitions of the
  Hellinger and Jensen-Shannon distances instantiated at `ℝ` (`sqrt := Real.sqrt`,
  `log := Real.log`, `log1p z := Real.log (1 + z)`, `truncNat := ⌊·⌋₊`) and their metric
  properties.  The statements used by the property are collected in Props/C07.lean.
-/
import MenelausVerif.Model.HDM
import Mathlib.Analysis.Real.Sqrt
import Mathlib.Analysis.SpecialFunctions.Log.Basic
import Mathlib.Algebra.Order.Floor.Semiring
import Mathlib.Tactic.Ring
import Mathlib.Tactic.Linarith
import Mathlib.Tactic.Positivity
namespace MV.HDM
open MV
set_option linter.unusedSectionVars false

noncomputable scoped instance instSqrtReal : HasSqrt ℝ := ⟨Real.sqrt⟩
noncomputable scoped instance instLogExpReal : HasLogExp ℝ := ⟨Real.log, Real.exp⟩
noncomputable scoped instance instLog1pReal : HasLog1p ℝ := ⟨fun z => Real.log (1 + z)⟩
noncomputable scoped instance instTruncReal : HasTrunc ℝ := ⟨fun x => ⌊x⌋₊⟩

@[simp] theorem rzero : (zero : ℝ) = 0 := by simp [zero]
@[simp] theorem rone : (one : ℝ) = 1 := by simp [one]
@[simp] theorem rtwo : (two : ℝ) = 2 := by simp [two]
@[simp] theorem rhalf : (half : ℝ) = 1 / 2 := by simp [half]
theorem rsqrt (x : ℝ) : (sqrt x : ℝ) = Real.sqrt x := rfl
theorem rlog (x : ℝ) : (log x : ℝ) = Real.log x := rfl
theorem rlog1p (x : ℝ) : (log1p x : ℝ) = Real.log (1 + x) := rfl

theorem rfoldl_add (a : ℝ) (l : List ℝ) : l.foldl (· + ·) a = a + l.sum := by
  induction l generalizing a with
  | nil => simp
  | cons x xs ih => simp [ih, add_assoc]

theorem rsumF (l : List ℝ) : sumF l = l.sum := by simp [sumF, rfoldl_add]

/-! ### Hellinger -/

theorem zip_self_mem {β : Type} (l : List β) (p : β × β) (hp : p ∈ l.zip l) : p.1 = p.2 := by
  induction l with
  | nil => simp at hp
  | cons x xs ih =>
    simp only [List.zip_cons_cons, List.mem_cons] at hp
    rcases hp with rfl | hp
    · rfl
    · exact ih hp

/-- the sum under the root of `_hellinger_distance` -/
noncomputable def hellSum (r t : List Nat) (rl tl : ℝ) : ℝ :=
  ((List.zip r t).map (fun p : Nat × Nat =>
    (Real.sqrt ((p.2 : ℝ) / tl) - Real.sqrt ((p.1 : ℝ) / rl)) ^ 2)).sum

theorem hellinger_eq (r t : List Nat) :
    (hellinger r t : ℝ) = Real.sqrt (hellSum r t (r.sum : ℕ) (t.sum : ℕ)) := by
  simp only [hellinger, rsumF, hellSum, rsqrt, sq, pow_two]

/-- **Hellinger(self) = 0** -/
theorem hellinger_self (h : List Nat) : (hellinger h h : ℝ) = 0 := by
  rw [hellinger_eq]
  have : hellSum h h (h.sum : ℕ) (h.sum : ℕ) = 0 := by
    unfold hellSum
    apply List.sum_eq_zero
    intro x hx
    simp only [List.mem_map] at hx
    obtain ⟨p, hp, rfl⟩ := hx
    rw [zip_self_mem h p hp]; simp
  rw [this]; simp

theorem hellSum_symm (r t : List Nat) (rl tl : ℝ) : hellSum r t rl tl = hellSum t r tl rl := by
  unfold hellSum
  rw [← List.zip_swap r t, List.map_map]
  congr 1
  apply List.map_congr_left
  intro p _
  simp only [Function.comp, Prod.fst_swap, Prod.snd_swap]
  ring

/-- **Hellinger is symmetric** -/
theorem hellinger_symm (r t : List Nat) : (hellinger r t : ℝ) = hellinger t r := by
  rw [hellinger_eq, hellinger_eq, hellSum_symm]

theorem sum_map_natCast_div (l : List Nat) (c : ℝ) :
    (l.map (fun a : ℕ => (a : ℝ) / c)).sum = ((l.sum : ℕ) : ℝ) / c := by
  induction l with
  | nil => simp
  | cons x xs ih => simp [ih, add_div]

theorem hellSum_le (r t : List Nat) (rl tl : ℝ) (hrl : 0 ≤ rl) (htl : 0 ≤ tl) (hlen : r.length = t.length) :
    hellSum r t rl tl ≤ ((t.sum : ℕ) : ℝ) / tl + ((r.sum : ℕ) : ℝ) / rl := by
  unfold hellSum
  induction r generalizing t with
  | nil => 
    cases t with
    | nil => simp
    | cons y ys => simp at hlen
  | cons x xs ih =>
    cases t with
    | nil => simp at hlen
    | cons y ys =>
      simp only [List.length_cons, Nat.add_right_cancel_iff] at hlen
      have := ih ys hlen
      simp only [List.zip_cons_cons, List.map_cons, List.sum_cons, Nat.cast_add]
      have hx : 0 ≤ (x : ℝ) / rl := div_nonneg (Nat.cast_nonneg x) hrl
      have hy : 0 ≤ (y : ℝ) / tl := div_nonneg (Nat.cast_nonneg y) htl
      have h1 : (Real.sqrt ((y : ℝ) / tl) - Real.sqrt ((x : ℝ) / rl)) ^ 2 ≤ (y : ℝ) / tl + (x : ℝ) / rl := by
        have a := Real.sq_sqrt hx
        have b := Real.sq_sqrt hy
        have c := Real.sqrt_nonneg ((x : ℝ) / rl)
        have d := Real.sqrt_nonneg ((y : ℝ) / tl)
        have e : (Real.sqrt ((y : ℝ) / tl) - Real.sqrt ((x : ℝ) / rl)) ^ 2 =
            Real.sqrt ((y : ℝ) / tl) ^ 2 + Real.sqrt ((x : ℝ) / rl) ^ 2
              - 2 * (Real.sqrt ((x : ℝ) / rl) * Real.sqrt ((y : ℝ) / tl)) := by ring
        rw [e, a, b]; linarith [mul_nonneg c d]
      rw [add_div, add_div]
      linarith

/-- **Hellinger ≤ √2** (for count vectors of equal length, as the two histograms are) -/
theorem hellinger_le_sqrt2 (r t : List Nat) (hlen : r.length = t.length) :
    (hellinger r t : ℝ) ≤ Real.sqrt 2 := by
  rw [hellinger_eq]
  apply Real.sqrt_le_sqrt
  have h := hellSum_le r t (r.sum : ℕ) (t.sum : ℕ) (Nat.cast_nonneg _) (Nat.cast_nonneg _) hlen
  have h1 : ((t.sum : ℕ) : ℝ) / ((t.sum : ℕ) : ℝ) ≤ 1 := div_self_le_one _
  have h2 : ((r.sum : ℕ) : ℝ) / ((r.sum : ℕ) : ℝ) ≤ 1 := div_self_le_one _
  linarith

theorem hellinger_nonneg (r t : List Nat) : (0 : ℝ) ≤ hellinger r t := by
  rw [hellinger_eq]; exact Real.sqrt_nonneg _

/-! ### Jensen-Shannon -/

/-- over ℝ, scipy's `rel_entr` is `x·log(x/y)` on its domain (`0·log 0 = 0`) -/
theorem relEntr_eq (x y : ℝ) (hx : 0 ≤ x) (hy : 0 ≤ y) (hxy : 0 < x → 0 < y) :
    relEntr x y = x * Real.log (x / y) := by
  unfold relEntr
  by_cases hx0 : 0 < x
  · have hy0 := hxy hx0
    simp only [rzero, hx0, hy0, and_self, if_true, rhalf, rtwo, rlog1p, rlog]
    split
    · congr 2; field_simp; ring
    · rfl
  · have : x = 0 := le_antisymm (not_lt.mp hx0) hx
    subst this
    simp [hy]

/-- the sum under the root of `jensenshannon`: `Σ p log(p/m) + Σ q log(q/m)` -/
noncomputable def jsSum (p q : List ℝ) : ℝ :=
  ((List.zip p q).map (fun a : ℝ × ℝ => a.1 * Real.log (a.1 / ((a.1 + a.2) / 2)))).sum +
  ((List.zip p q).map (fun a : ℝ × ℝ => a.2 * Real.log (a.2 / ((a.1 + a.2) / 2)))).sum

theorem zipWith_relEntr_left (p q : List ℝ) (hp : ∀ x ∈ p, 0 ≤ x) (hq : ∀ x ∈ q, 0 ≤ x) :
    List.zipWith relEntr p (List.zipWith (fun a b : ℝ => (a + b) / 2) p q) =
      (List.zip p q).map (fun a : ℝ × ℝ => a.1 * Real.log (a.1 / ((a.1 + a.2) / 2))) := by
  induction p generalizing q with
  | nil => simp
  | cons x xs ih =>
    cases q with
    | nil => simp
    | cons y ys =>
      have hx := hp x (by simp)
      have hy := hq y (by simp)
      simp only [List.zipWith_cons_cons, List.zip_cons_cons, List.map_cons, rtwo]
      rw [ih ys (fun a ha => hp a (by simp [ha])) (fun a ha => hq a (by simp [ha])),
        relEntr_eq x ((x + y) / 2) hx (by positivity) (fun h => by positivity)]

theorem zipWith_relEntr_right (p q : List ℝ) (hp : ∀ x ∈ p, 0 ≤ x) (hq : ∀ x ∈ q, 0 ≤ x) :
    List.zipWith relEntr q (List.zipWith (fun a b : ℝ => (a + b) / 2) p q) =
      (List.zip p q).map (fun a : ℝ × ℝ => a.2 * Real.log (a.2 / ((a.1 + a.2) / 2))) := by
  induction p generalizing q with
  | nil => simp
  | cons x xs ih =>
    cases q with
    | nil => simp
    | cons y ys =>
      have hx := hp x (by simp)
      have hy := hq y (by simp)
      simp only [List.zipWith_cons_cons, List.zip_cons_cons, List.map_cons, rtwo]
      rw [ih ys (fun a ha => hp a (by simp [ha])) (fun a ha => hq a (by simp [ha])),
        relEntr_eq y ((x + y) / 2) hy (by positivity) (fun h => by positivity)]

theorem normalise_nonneg (c : List Nat) : ∀ x ∈ (normalise c : List ℝ), 0 ≤ x := by
  intro x hx
  simp only [normalise, List.mem_map] at hx
  obtain ⟨k, _, rfl⟩ := hx
  exact div_nonneg (Nat.cast_nonneg k) (Nat.cast_nonneg _)

theorem jensenShannon_eq (r t : List Nat) :
    (jensenShannon r t : ℝ) = Real.sqrt (jsSum (normalise r) (normalise t) / 2) := by
  simp only [jensenShannon, rsumF, rsqrt, rtwo, jsSum]
  rw [zipWith_relEntr_left _ _ (normalise_nonneg r) (normalise_nonneg t),
    zipWith_relEntr_right _ _ (normalise_nonneg r) (normalise_nonneg t)]

theorem jsSum_self (p : List ℝ) : jsSum p p = 0 := by
  have h : ∀ x : ℝ, x * Real.log (x / ((x + x) / 2)) = 0 := by
    intro x
    have : (x + x) / 2 = x := by ring
    rw [this]
    by_cases hx : x = 0
    · simp [hx]
    · simp [div_self hx]
  unfold jsSum
  have h1 : ((List.zip p p).map (fun a : ℝ × ℝ => a.1 * Real.log (a.1 / ((a.1 + a.2) / 2)))).sum = 0 := by
    apply List.sum_eq_zero
    intro x hx
    simp only [List.mem_map] at hx
    obtain ⟨a, ha, rfl⟩ := hx
    rw [← zip_self_mem p a ha]; exact h a.1
  have h2 : ((List.zip p p).map (fun a : ℝ × ℝ => a.2 * Real.log (a.2 / ((a.1 + a.2) / 2)))).sum = 0 := by
    apply List.sum_eq_zero
    intro x hx
    simp only [List.mem_map] at hx
    obtain ⟨a, ha, rfl⟩ := hx
    rw [zip_self_mem p a ha]; exact h a.2
  rw [h1, h2]; simp

/-- **JS(self) = 0** -/
theorem jensenShannon_self (h : List Nat) : (jensenShannon h h : ℝ) = 0 := by
  rw [jensenShannon_eq, jsSum_self]; simp

theorem jsSum_symm (p q : List ℝ) : jsSum p q = jsSum q p := by
  unfold jsSum
  rw [← List.zip_swap p q, List.map_map, List.map_map, add_comm]
  congr 2
  · apply List.map_congr_left
    intro a _
    simp only [Function.comp, Prod.fst_swap, Prod.snd_swap, add_comm]
  · apply List.map_congr_left
    intro a _
    simp only [Function.comp, Prod.fst_swap, Prod.snd_swap, add_comm]

/-- **JS is symmetric** -/
theorem jensenShannon_symm (r t : List Nat) : (jensenShannon r t : ℝ) = jensenShannon t r := by
  rw [jensenShannon_eq, jensenShannon_eq, jsSum_symm]

theorem term_le_log2 (x y : ℝ) (hx : 0 ≤ x) (hy : 0 ≤ y) :
    x * Real.log (x / ((x + y) / 2)) ≤ x * Real.log 2 := by
  by_cases hx0 : x = 0
  · simp [hx0]
  · have hxp : 0 < x := lt_of_le_of_ne hx (Ne.symm hx0)
    have hm : 0 < (x + y) / 2 := by positivity
    apply mul_le_mul_of_nonneg_left _ hx
    rw [Real.log_le_log_iff (div_pos hxp hm) (by norm_num)]
    rw [div_le_iff₀ hm]; linarith

theorem sum_zip_le (p q : List ℝ) (hp : ∀ x ∈ p, 0 ≤ x) (hq : ∀ x ∈ q, 0 ≤ x)
    (hlen : p.length = q.length) :
    ((List.zip p q).map (fun a : ℝ × ℝ => a.1 * Real.log (a.1 / ((a.1 + a.2) / 2)))).sum
      ≤ p.sum * Real.log 2 ∧
    ((List.zip p q).map (fun a : ℝ × ℝ => a.2 * Real.log (a.2 / ((a.1 + a.2) / 2)))).sum
      ≤ q.sum * Real.log 2 := by
  induction p generalizing q with
  | nil => cases q with
    | nil => simp
    | cons y ys => simp at hlen
  | cons x xs ih =>
    cases q with
    | nil => simp at hlen
    | cons y ys =>
      simp only [List.length_cons, Nat.add_right_cancel_iff] at hlen
      have hx := hp x (by simp)
      have hy := hq y (by simp)
      have := ih ys (fun a ha => hp a (by simp [ha])) (fun a ha => hq a (by simp [ha])) hlen
      simp only [List.zip_cons_cons, List.map_cons, List.sum_cons, add_mul]
      have t1 := term_le_log2 x y hx hy
      have t2 := term_le_log2 y x hy hx
      rw [add_comm y x] at t2
      constructor <;> linarith [this.1, this.2]

theorem normalise_sum_le_one (c : List Nat) : (normalise c : List ℝ).sum ≤ 1 := by
  unfold normalise
  rw [sum_map_natCast_div]
  exact div_self_le_one _

theorem normalise_length (c : List Nat) : (normalise c : List ℝ).length = c.length := by
  simp [normalise]

/-- **JS ≤ √(ln 2)** (for count vectors of equal length, as the two histograms are) -/
theorem jensenShannon_le (r t : List Nat) (hlen : r.length = t.length) :
    (jensenShannon r t : ℝ) ≤ Real.sqrt (Real.log 2) := by
  rw [jensenShannon_eq]
  apply Real.sqrt_le_sqrt
  have h := sum_zip_le (normalise r) (normalise t) (normalise_nonneg r) (normalise_nonneg t)
    (by rw [normalise_length, normalise_length, hlen])
  have hl : 0 ≤ Real.log 2 := Real.log_nonneg (by norm_num)
  have h1 := mul_le_mul_of_nonneg_right (normalise_sum_le_one r) hl
  have h2 := mul_le_mul_of_nonneg_right (normalise_sum_le_one t) hl
  unfold jsSum
  linarith [h.1, h.2]

theorem term_ge (x y : ℝ) (hx : 0 ≤ x) (hy : 0 ≤ y) :
    x - (x + y) / 2 ≤ x * Real.log (x / ((x + y) / 2)) := by
  by_cases hx0 : x = 0
  · subst hx0; simp; linarith
  · have hxp : 0 < x := lt_of_le_of_ne hx (Ne.symm hx0)
    have hm : 0 < (x + y) / 2 := by positivity
    have h := Real.log_le_sub_one_of_pos (div_pos hm hxp)
    have e : Real.log (x / ((x + y) / 2)) = - Real.log ((x + y) / 2 / x) := by
      rw [← Real.log_inv, inv_div]
    rw [e]
    have : x * ((x + y) / 2 / x - 1) = (x + y) / 2 - x := by field_simp
    nlinarith [mul_le_mul_of_nonneg_left h hx]

theorem jsSum_nonneg (p q : List ℝ) (hp : ∀ x ∈ p, 0 ≤ x) (hq : ∀ x ∈ q, 0 ≤ x) : 0 ≤ jsSum p q := by
  unfold jsSum
  rw [← List.sum_map_add]
  apply List.sum_nonneg
  intro x hx
  simp only [List.mem_map] at hx
  obtain ⟨a, ha, rfl⟩ := hx
  have h1 := hp a.1 (List.of_mem_zip ha).1
  have h2 := hq a.2 (List.of_mem_zip ha).2
  have t1 := term_ge a.1 a.2 h1 h2
  have t2 := term_ge a.2 a.1 h2 h1
  rw [add_comm a.2 a.1] at t2
  linarith

/-- the quantity under the root of `jensenshannon` is never negative (so the root is the real
    root, not the `0` that `Real.sqrt` returns for negative arguments) -/
theorem jensenShannon_radicand_nonneg (r t : List Nat) :
    0 ≤ jsSum (normalise r : List ℝ) (normalise t) / 2 := by
  have := jsSum_nonneg _ _ (normalise_nonneg r) (normalise_nonneg t)
  linarith

/-! ### histograms -/

theorem sum_indicator_range (a n : Nat) :
    ((List.range n).map (fun k => if a = k then 1 else 0)).sum = if a < n then 1 else 0 := by
  induction n with
  | zero => simp
  | succ n ih =>
    rw [List.range_succ, List.map_append, List.sum_append, ih]
    by_cases h : a < n
    · have : a ≠ n := by omega
      have h' : a < n + 1 := by omega
      simp [h, this, h']
    · by_cases h2 : a = n
      · simp [h2]
      · have h' : ¬ a < n + 1 := by omega
        simp [h, h2, h']

theorem count_sum (n : Nat) (l : List Nat) (h : ∀ i ∈ l, i < n) :
    ((List.range n).map (fun k => l.count k)).sum = l.length := by
  induction l with
  | nil => simp
  | cons a l ih =>
    have ha : a < n := h a (by simp)
    have := ih (fun i hi => h i (by simp [hi]))
    have e : (fun k => (a :: l).count k) = (fun k => l.count k + (if a = k then 1 else 0)) := by
      funext k; rw [List.count_cons]
      by_cases hk : a = k
      · simp [hk]
      · have : (a == k) = false := by simpa using hk
        simp [hk, this]
    rw [e, List.sum_map_add, this, sum_indicator_range]; simp [ha]

theorem binIndex_lt (lo hi : ℝ) (bins : Nat) (x : ℝ) (hb : 0 < bins) (hlh : lo < hi)
    (hx : lo ≤ x ∧ x ≤ hi) : binIndex lo hi bins x < bins := by
  have h0 : truncNat (((x - lo) / (hi - lo)) * (bins : ℝ)) ≤ bins := by
    show ⌊((x - lo) / (hi - lo)) * (bins : ℝ)⌋₊ ≤ bins
    apply Nat.floor_le_of_le
    have hd : 0 < hi - lo := by linarith
    have : (x - lo) / (hi - lo) ≤ 1 := by rw [div_le_one hd]; linarith
    have hbn : (0 : ℝ) ≤ bins := Nat.cast_nonneg _
    nlinarith
  unfold binIndex
  generalize truncNat (((x - lo) / (hi - lo)) * (bins : ℝ)) = i0 at h0
  simp only
  split <;> split <;> split <;> omega

/-- **a histogram counts every value of the column once** when the range spans the column (as it
    does in `update`, where the range is the min / max over reference ∪ batch) -/
theorem hist_total (bins : Nat) (hb : 0 < bins) (lo hi : ℝ) (xs : List ℝ) (hle : lo ≤ hi)
    (hspan : ∀ x ∈ xs, lo ≤ x ∧ x ≤ hi) : (hist bins lo hi xs).sum = xs.length := by
  unfold hist
  simp only
  have hw : (widen lo hi).1 < (widen lo hi).2 ∧ (widen lo hi).1 ≤ lo ∧ hi ≤ (widen lo hi).2 := by
    unfold widen
    by_cases he : lo = hi
    · subst he; simp; linarith
    · have : lo < hi := lt_of_le_of_ne hle he
      simp [he, this]
  have hkeep : xs.filter (inRange (widen lo hi).1 (widen lo hi).2) = xs := by
    rw [List.filter_eq_self]
    intro x hx
    have := hspan x hx
    simp only [inRange, Bool.and_eq_true, decide_eq_true_eq]
    constructor <;> linarith [hw.2.1, hw.2.2]
  rw [count_sum]
  · simp [binIndices, hkeep]
  · intro i hi
    simp only [binIndices, hkeep, List.mem_map] at hi
    obtain ⟨x, hx, rfl⟩ := hi
    have := hspan x hx
    exact binIndex_lt _ _ bins x hb hw.1 ⟨by linarith [hw.2.1], by linarith [hw.2.2]⟩


/-! ### min / max of a column, aligned histogram pairs -/

theorem pyMin_eq (a b : ℝ) : pyMin a b = min a b := by
  unfold pyMin; by_cases h : b < a
  · simp [h, min_eq_right (le_of_lt h)]
  · simp [h, min_eq_left (not_lt.mp h)]
theorem pyMax_eq (a b : ℝ) : pyMax a b = max a b := by
  unfold pyMax; by_cases h : a < b
  · simp [h, max_eq_right (le_of_lt h)]
  · simp [h, max_eq_left (not_lt.mp h)]

theorem foldl_pyMin_spec (ys : List ℝ) (x : ℝ) :
    (ys.foldl pyMin x ≤ x ∧ ∀ y ∈ ys, ys.foldl pyMin x ≤ y) ∧ ys.foldl pyMin x ∈ x :: ys := by
  induction ys generalizing x with
  | nil => simp
  | cons y ys ih =>
    have := ih (pyMin x y)
    rw [pyMin_eq] at this
    simp only [List.foldl_cons, pyMin_eq]
    refine ⟨⟨le_trans this.1.1 (min_le_left _ _), ?_⟩, ?_⟩
    · intro z hz
      simp only [List.mem_cons] at hz
      rcases hz with rfl | hz
      · exact le_trans this.1.1 (min_le_right _ _)
      · exact this.1.2 z hz
    · have hm := this.2
      simp only [List.mem_cons] at hm ⊢
      rcases hm with hm | hm
      · rcases min_choice x y with h | h
        · left; rw [hm]; exact h
        · right; left; rw [hm]; exact h
      · simp [hm]

theorem foldl_pyMax_spec (ys : List ℝ) (x : ℝ) :
    (x ≤ ys.foldl pyMax x ∧ ∀ y ∈ ys, y ≤ ys.foldl pyMax x) ∧ ys.foldl pyMax x ∈ x :: ys := by
  induction ys generalizing x with
  | nil => simp
  | cons y ys ih =>
    have := ih (pyMax x y)
    rw [pyMax_eq] at this
    simp only [List.foldl_cons, pyMax_eq]
    refine ⟨⟨le_trans (le_max_left _ _) this.1.1, ?_⟩, ?_⟩
    · intro z hz
      simp only [List.mem_cons] at hz
      rcases hz with rfl | hz
      · exact le_trans (le_max_right _ _) this.1.1
      · exact this.1.2 z hz
    · have hm := this.2
      simp only [List.mem_cons] at hm ⊢
      rcases hm with hm | hm
      · rcases max_choice x y with h | h
        · left; rw [hm]; exact h
        · right; left; rw [hm]; exact h
      · simp [hm]

/-- `minOf` is the least element of a non-empty list -/
theorem minOf_spec (l : List ℝ) (hne : l ≠ []) : minOf l ∈ l ∧ ∀ y ∈ l, minOf l ≤ y := by
  cases l with
  | nil => exact absurd rfl hne
  | cons x xs =>
    have := foldl_pyMin_spec xs x
    refine ⟨this.2, ?_⟩
    intro y hy
    simp only [List.mem_cons] at hy
    rcases hy with rfl | hy
    · exact this.1.1
    · exact this.1.2 y hy

theorem maxOf_spec (l : List ℝ) (hne : l ≠ []) : maxOf l ∈ l ∧ ∀ y ∈ l, y ≤ maxOf l := by
  cases l with
  | nil => exact absurd rfl hne
  | cons x xs =>
    have := foldl_pyMax_spec xs x
    refine ⟨this.2, ?_⟩
    intro y hy
    simp only [List.mem_cons] at hy
    rcases hy with rfl | hy
    · exact this.1.1
    · exact this.1.2 y hy

theorem minOf_append_comm (a b : List ℝ) : minOf (a ++ b) = minOf (b ++ a) := by
  by_cases h : a ++ b = []
  · have : b ++ a = [] := by simp_all
    rw [h, this]
  · have h' : b ++ a ≠ [] := by
      intro hb; apply h; simp only [List.append_eq_nil_iff] at hb ⊢; exact ⟨hb.2, hb.1⟩
    have s1 := minOf_spec _ h
    have s2 := minOf_spec _ h'
    apply le_antisymm
    · exact s1.2 _ (by have := s2.1; simp only [List.mem_append] at this ⊢; tauto)
    · exact s2.2 _ (by have := s1.1; simp only [List.mem_append] at this ⊢; tauto)

theorem maxOf_append_comm (a b : List ℝ) : maxOf (a ++ b) = maxOf (b ++ a) := by
  by_cases h : a ++ b = []
  · have : b ++ a = [] := by simp_all
    rw [h, this]
  · have h' : b ++ a ≠ [] := by
      intro hb; apply h; simp only [List.append_eq_nil_iff] at hb ⊢; exact ⟨hb.2, hb.1⟩
    have s1 := maxOf_spec _ h
    have s2 := maxOf_spec _ h'
    apply le_antisymm
    · exact s2.2 _ (by have := s1.1; simp only [List.mem_append] at this ⊢; tauto)
    · exact s1.2 _ (by have := s2.1; simp only [List.mem_append] at this ⊢; tauto)

theorem rangeOf_comm (ref X : List (List ℝ)) (f : Nat) : rangeOf ref X f = rangeOf X ref f := by
  simp only [rangeOf, minOf_append_comm (colOf ref f), maxOf_append_comm (colOf ref f)]

theorem histPair_comm (bins : Nat) (ref X : List (List ℝ)) (f : Nat) :
    histPair bins ref X f = ((histPair bins X ref f).2, (histPair bins X ref f).1) := by
  simp only [histPair, rangeOf_comm ref X f]


/-! ### numpy's uniform-bin index rule -/

/-- over ℝ the linspace edge is `lo + i·(hi − lo)/bins` for every `i ≤ bins` (also the last) -/
theorem edge_eq (lo hi : ℝ) (bins i : Nat) (hb : 0 < bins) (hi' : i ≤ bins) :
    edge lo hi bins i = (i : ℝ) * ((hi - lo) / (bins : ℝ)) + lo := by
  unfold edge
  by_cases h : i = bins
  · subst h
    have : (i : ℝ) ≠ 0 := by exact_mod_cast (Nat.pos_iff_ne_zero.mp hb)
    simp only [if_true]; field_simp; ring
  · simp [h]

/-- **numpy's index rule puts a value into the bin whose edges bracket it** (left-closed,
    right-open; the last bin also contains the right edge): over ℝ the ±1 corrections never fire
    and the index is `min(⌊(x − lo)/(hi − lo)·bins⌋, bins − 1)`. -/
theorem binIndex_spec (lo hi : ℝ) (bins : Nat) (x : ℝ) (hb : 0 < bins) (hlh : lo < hi)
    (hx : lo ≤ x ∧ x ≤ hi) :
    let i := binIndex lo hi bins x
    i < bins ∧ edge lo hi bins i ≤ x ∧ (x < edge lo hi bins (i + 1) ∨ (i = bins - 1 ∧ x = hi)) := by
  have hd : 0 < hi - lo := by linarith
  have hbr : (0 : ℝ) < bins := by exact_mod_cast hb
  set w : ℝ := (hi - lo) / (bins : ℝ) with hw
  have hwpos : 0 < w := div_pos hd hbr
  set f : ℝ := ((x - lo) / (hi - lo)) * (bins : ℝ) with hf
  have hfw : f * w = x - lo := by
    rw [hf, hw]; field_simp
  have hf0 : 0 ≤ f := by
    rw [hf]; exact mul_nonneg (div_nonneg (by linarith) (le_of_lt hd)) (le_of_lt hbr)
  have hfle : f ≤ bins := by
    have : (x - lo) / (hi - lo) ≤ 1 := by rw [div_le_one hd]; linarith
    rw [hf]; nlinarith
  have hfl1 : ((⌊f⌋₊ : ℕ) : ℝ) ≤ f := Nat.floor_le hf0
  have hfl2 : f < (⌊f⌋₊ : ℝ) + 1 := Nat.lt_floor_add_one f
  have hi0 : ⌊f⌋₊ ≤ bins := Nat.floor_le_of_le hfle
  have htr : truncNat f = ⌊f⌋₊ := rfl
  intro i
  have hidef : i = binIndex lo hi bins x := rfl
  unfold binIndex at hidef
  rw [← hf, htr] at hidef
  by_cases hlast : ⌊f⌋₊ = bins
  · -- x is the right edge
    have hxf : f = bins := le_antisymm hfle (by rw [← hlast] at *; exact_mod_cast hfl1)
    have hxhi : x = hi := by
      have : x - lo = (bins : ℝ) * w := by rw [← hfw, hxf]
      rw [hw] at this; field_simp at this; linarith
    have hb1 : bins - 1 < bins := by omega
    have he1 : edge lo hi bins (bins - 1) < x := by
      rw [edge_eq lo hi bins (bins - 1) hb (by omega), hxhi]
      have : ((bins - 1 : ℕ) : ℝ) = (bins : ℝ) - 1 := by
        rw [Nat.cast_sub (by omega)]; simp
      rw [this, ← hw]
      have : (bins : ℝ) * w = hi - lo := by rw [hw]; field_simp
      nlinarith
    have : i = bins - 1 := by
      rw [hidef]
      simp only [hlast, if_true]
      have h1 : ¬ (x < edge lo hi bins (bins - 1)) := not_lt.mpr (le_of_lt he1)
      simp [h1]
    rw [this]
    exact ⟨hb1, le_of_lt he1, Or.inr ⟨rfl, hxhi⟩⟩
  · have hlt : ⌊f⌋₊ < bins := lt_of_le_of_ne hi0 hlast
    have he0 : edge lo hi bins ⌊f⌋₊ ≤ x := by
      rw [edge_eq lo hi bins _ hb hi0, ← hw]
      nlinarith
    have he1 : x < edge lo hi bins (⌊f⌋₊ + 1) := by
      rw [edge_eq lo hi bins _ hb (by omega), ← hw]
      push_cast
      nlinarith
    have : i = ⌊f⌋₊ := by
      rw [hidef]
      have h1 : ¬ (x < edge lo hi bins ⌊f⌋₊) := not_lt.mpr he0
      have h2 : ¬ (edge lo hi bins (⌊f⌋₊ + 1) ≤ x) := not_le.mpr he1
      simp [hlast, h1, h2]
    rw [this]
    exact ⟨hlt, he0, Or.inl he1⟩


end MV.HDM
