/-
  Lemmas for C10: the NNPS distance over an ordered field — every summand
  `|a - b| / (a + b)` lies in [0, 1], is symmetric and vanishes for `a = b`.
-/
import MenelausVerif.Model.NNSP
import Mathlib.Algebra.Order.Field.Basic
import Mathlib.Algebra.Order.BigOperators.Group.List
import Mathlib.Algebra.Order.AbsoluteValue.Basic
import Mathlib.Tactic.Ring
import Mathlib.Tactic.Positivity
import Mathlib.Tactic.Linarith
namespace MV.NNSP

variable {K : Type} [Field K] [LinearOrder K] [IsStrictOrderedRing K]

theorem absOf_eq_abs (x : K) : absOf x = |x| := by
  unfold absOf
  rw [Nat.cast_zero]
  split
  · rename_i h; exact (abs_of_neg h).symm
  · rename_i h; exact (abs_of_nonneg (not_lt.mp h)).symm

theorem term_eq (a b : Nat) : (term a b : K) = |(a : K) - (b : K)| / ((a : K) + (b : K)) := by
  unfold term; rw [absOf_eq_abs]

theorem term_nonneg (a b : Nat) : (0 : K) ≤ term a b := by
  rw [term_eq]
  exact div_nonneg (abs_nonneg _) (by positivity)

theorem term_le_one (a b : Nat) : (term a b : K) ≤ 1 := by
  rw [term_eq]
  have ha : (0 : K) ≤ a := Nat.cast_nonneg a
  have hb : (0 : K) ≤ b := Nat.cast_nonneg b
  apply div_le_one_of_le₀ _ (by positivity)
  rw [abs_le]; constructor <;> linarith

theorem term_comm (a b : Nat) : (term a b : K) = term b a := by
  rw [term_eq, term_eq, abs_sub_comm, add_comm]

theorem term_self (a : Nat) : (term a a : K) = 0 := by
  rw [term_eq]; simp

omit [LinearOrder K] [IsStrictOrderedRing K] in
theorem foldl_add_eq_sum (l : List K) (acc : K) : l.foldl (· + ·) acc = acc + l.sum := by
  induction l generalizing acc with
  | nil => simp
  | cons x xs ih => simp [ih, add_assoc]

omit [LinearOrder K] [IsStrictOrderedRing K] in
theorem sumL_eq_sum (l : List K) : sumL l = l.sum := by
  unfold sumL; rw [foldl_add_eq_sum]; simp

/-- `np.dot(v, M)` never has more entries than the declared width -/
theorem vecMat_length_le (v : List Bool) (M : List (List Nat)) (n : Nat) : (vecMat v M n).length ≤ n := by
  unfold vecMat
  have : ∀ (l : List (Bool × List Nat)) (acc : List Nat),
      (l.foldl (fun acc x => if x.1 then List.zipWith (· + ·) acc x.2 else acc) acc).length ≤ acc.length := by
    intro l
    induction l with
    | nil => intro acc; simp
    | cons x xs ih =>
      intro acc
      simp only [List.foldl_cons]
      refine le_trans (ih _) ?_
      split
      · simp [List.length_zipWith]
      · exact le_refl _
  simpa using this (List.zip v M) (List.replicate n 0)

theorem mem_zipWith_exists {β γ δ : Type} (f : β → γ → δ) (l1 : List β) (l2 : List γ) (x : δ)
    (h : x ∈ List.zipWith f l1 l2) : ∃ a b, x = f a b := by
  induction l1 generalizing l2 with
  | nil => simp at h
  | cons a as ih =>
    cases l2 with
    | nil => simp at h
    | cons b bs =>
      simp only [List.zipWith_cons_cons, List.mem_cons] at h
      rcases h with rfl | h
      · exact ⟨a, b, rfl⟩
      · exact ih bs h

/-- the sum of the terms is between 0 and the number of terms -/
theorem termSum_bounds (m1 m2 : List Nat) :
    (0 : K) ≤ (List.zipWith term m1 m2).foldl (· + ·) ((0 : Nat) : K) ∧
    (List.zipWith term m1 m2).foldl (· + ·) ((0 : Nat) : K) ≤ (m1.length : K) := by
  rw [foldl_add_eq_sum, Nat.cast_zero, zero_add]
  constructor
  · apply List.sum_nonneg
    intro x hx
    obtain ⟨a, b, rfl⟩ := mem_zipWith_exists _ _ _ _ hx
    exact term_nonneg a b
  · have h := List.sum_le_card_nsmul (List.zipWith (term (α := K)) m1 m2) 1 (by
      intro x hx
      obtain ⟨a, b, rfl⟩ := mem_zipWith_exists _ _ _ _ hx
      exact term_le_one a b)
    refine le_trans h ?_
    simp only [nsmul_eq_mul, mul_one, List.length_zipWith]
    exact_mod_cast Nat.min_le_left _ _

end MV.NNSP
