/-
  Arithmetic lemmas for C08: over linear orders (min / max of a column), ordered fields
  (termination of `build`, corrected distributions sum to one) and ℝ (Gibbs' inequality).
-/
import MenelausVerif.Lemmas.KdqTree
import Mathlib.Algebra.Order.Field.Basic
import Mathlib.Tactic.Ring
import Mathlib.Tactic.FieldSimp
import Mathlib.Tactic.Linarith
import Mathlib.Tactic.Positivity
import Mathlib.Analysis.SpecialFunctions.Log.Basic
set_option linter.unusedSimpArgs false
set_option linter.unusedSectionVars false
namespace MV.Kdq

section order
variable {K : Type} [LinearOrder K] [Inhabited K]

theorem compl_of_linearOrder : Compl K := fun _ _ => not_le.symm

theorem foldl_min_mem (xs : List K) (x : K) :
    xs.foldl (fun a b => if b < a then b else a) x ∈ x :: xs := by
  induction xs generalizing x with
  | nil => simp
  | cons y ys ih =>
    simp only [List.foldl_cons]
    by_cases h : y < x
    · simp only [h, if_true]
      have := ih y
      simp only [List.mem_cons] at this ⊢; tauto
    · simp only [h, if_false]
      have := ih x
      simp only [List.mem_cons] at this ⊢; tauto

theorem foldl_min_le (xs : List K) (x : K) :
    ∀ z ∈ x :: xs, xs.foldl (fun a b => if b < a then b else a) x ≤ z := by
  induction xs generalizing x with
  | nil => simp
  | cons y ys ih =>
    intro z hz
    simp only [List.foldl_cons]
    have h1 := ih (if y < x then y else x)
    have hm : (if y < x then y else x) ≤ x ∧ (if y < x then y else x) ≤ y := by
      split
      · exact ⟨le_of_lt ‹_›, le_refl _⟩
      · exact ⟨le_refl _, not_lt.mp ‹_›⟩
    have hself := h1 _ (List.mem_cons_self)
    simp only [List.mem_cons] at hz
    rcases hz with rfl | rfl | hz
    · exact le_trans hself hm.1
    · exact le_trans hself hm.2
    · exact h1 z (List.mem_cons_of_mem _ hz)

theorem foldl_max_mem (xs : List K) (x : K) :
    xs.foldl (fun a b => if a < b then b else a) x ∈ x :: xs := by
  induction xs generalizing x with
  | nil => simp
  | cons y ys ih =>
    simp only [List.foldl_cons]
    by_cases h : x < y
    · simp only [h, if_true]
      have := ih y
      simp only [List.mem_cons] at this ⊢; tauto
    · simp only [h, if_false]
      have := ih x
      simp only [List.mem_cons] at this ⊢; tauto

theorem foldl_max_ge (xs : List K) (x : K) :
    ∀ z ∈ x :: xs, z ≤ xs.foldl (fun a b => if a < b then b else a) x := by
  induction xs generalizing x with
  | nil => simp
  | cons y ys ih =>
    intro z hz
    simp only [List.foldl_cons]
    have h1 := ih (if x < y then y else x)
    have hm : x ≤ (if x < y then y else x) ∧ y ≤ (if x < y then y else x) := by
      split
      · exact ⟨le_of_lt ‹_›, le_refl _⟩
      · exact ⟨le_refl _, not_lt.mp ‹_›⟩
    have hself := h1 _ (List.mem_cons_self)
    simp only [List.mem_cons] at hz
    rcases hz with rfl | rfl | hz
    · exact le_trans hm.1 hself
    · exact le_trans hm.2 hself
    · exact h1 z (List.mem_cons_of_mem _ hz)

/-- `minOf` is the minimum of a non-empty list -/
theorem minOf_mem {xs : List K} (h : xs ≠ []) : minOf xs ∈ xs := by
  cases xs with
  | nil => exact absurd rfl h
  | cons x xs => exact foldl_min_mem xs x
theorem minOf_le {xs : List K} {z : K} (hz : z ∈ xs) : minOf xs ≤ z := by
  cases xs with
  | nil => simp at hz
  | cons x xs => exact foldl_min_le xs x z hz
/-- `maxOf` is the maximum of a non-empty list -/
theorem maxOf_mem {xs : List K} (h : xs ≠ []) : maxOf xs ∈ xs := by
  cases xs with
  | nil => exact absurd rfl h
  | cons x xs => exact foldl_max_mem xs x
theorem le_maxOf {xs : List K} {z : K} (hz : z ∈ xs) : z ≤ maxOf xs := by
  cases xs with
  | nil => simp at hz
  | cons x xs => exact foldl_max_ge xs x z hz

end order

/-! ### ordered fields: `build` terminates and has no `None` child -/

section field
variable {K : Type} [Field K] [LinearOrder K] [IsStrictOrderedRing K] [Inhabited K] [BEq K]

theorem col_ne_nil {data : List (List K)} (h : data ≠ []) (a : Nat) : col data a ≠ [] := by
  cases data with
  | nil => exact absurd rfl h
  | cons r rs => simp [col]

/-- when the stop rule does not apply (cut sizes ≥ 0) the split value lies in `[min, max)` -/
theorem split_proper {ub : Nat} {mins : List K} {data : List (List K)} {axis : Nat}
    (hmin : 0 ≤ mins.getD axis default) (hs : stops ub mins data axis = false) :
    minOf (col data axis) ≤ midpoint data axis ∧ midpoint data axis < maxOf (col data axis) := by
  simp only [stops, Bool.or_eq_false_iff, decide_eq_false_iff_not, not_le] at hs
  have h3 := hs.2
  have h2 : ((2 : Nat) : K) = 2 := by norm_num
  simp only [midpoint, ptp, two, h2] at h3 ⊢
  constructor <;> linarith

theorem lower_facts {ub : Nat} {mins : List K} {data : List (List K)} {axis : Nat}
    (hmin : 0 ≤ mins.getD axis default) (hne : data ≠ []) (hs : stops ub mins data axis = false) :
    (data.filter (goesDown axis (midpoint data axis))).length < data.length ∧
    data.filter (goesDown axis (midpoint data axis)) ≠ [] := by
  obtain ⟨h1, h2⟩ := split_proper hmin hs
  obtain ⟨rmx, hrmx, emx⟩ := List.mem_map.mp (maxOf_mem (col_ne_nil hne axis))
  obtain ⟨rmn, hrmn, emn⟩ := List.mem_map.mp (minOf_mem (col_ne_nil hne axis))
  constructor
  · rw [List.length_filter_lt_length_iff_exists]
    exact ⟨rmx, hrmx, by simp only [goesDown, emx, decide_eq_true_eq, not_le]; exact h2⟩
  · intro he
    have : rmn ∈ data.filter (goesDown axis (midpoint data axis)) :=
      List.mem_filter.mpr ⟨hrmn, by simp only [goesDown, emn, decide_eq_true_eq]; exact h1⟩
    rw [he] at this; simp at this

theorem upper_facts {ub : Nat} {mins : List K} {data : List (List K)} {axis : Nat}
    (hmin : 0 ≤ mins.getD axis default) (hne : data ≠ []) (hs : stops ub mins data axis = false) :
    (data.filter (goesUp axis (midpoint data axis))).length < data.length ∧
    data.filter (goesUp axis (midpoint data axis)) ≠ [] := by
  obtain ⟨h1, h2⟩ := split_proper hmin hs
  obtain ⟨rmx, hrmx, emx⟩ := List.mem_map.mp (maxOf_mem (col_ne_nil hne axis))
  obtain ⟨rmn, hrmn, emn⟩ := List.mem_map.mp (minOf_mem (col_ne_nil hne axis))
  constructor
  · rw [List.length_filter_lt_length_iff_exists]
    exact ⟨rmn, hrmn, by simp only [goesUp, emn, decide_eq_true_eq, not_lt]; exact h1⟩
  · intro he
    have : rmx ∈ data.filter (goesUp axis (midpoint data axis)) :=
      List.mem_filter.mpr ⟨hrmx, by simp only [goesUp, emx, decide_eq_true_eq]; exact h2⟩
    rw [he] at this; simp at this

/-- with more fuel than rows, `buildAux` returns a tree, and that tree has no `None` child -/
theorem buildAux_total (ub : Nat) (mins : List K) (m : Nat)
    (hmins : ∀ a, a < m → 0 ≤ mins.getD a default) :
    ∀ (fuel d : Nat) (data : List (List K)), data.length < fuel →
      ∃ t, buildAux ub mins m fuel d data = some t ∧ (data ≠ [] → 0 < m → t.noNilBelow = true) := by
  intro fuel
  induction fuel with
  | zero => intro d data h; omega
  | succ f ih =>
    intro d data hlen
    unfold buildAux
    by_cases h0 : data.length = 0 ∨ m = 0
    · rw [if_pos h0]
      refine ⟨.nil, rfl, ?_⟩
      intro hne hm
      rcases h0 with h0 | h0
      · exact absurd (List.eq_nil_of_length_eq_zero h0) hne
      · omega
    · rw [if_neg h0]
      have hm : 0 < m := by omega
      have hne : data ≠ [] := by intro e; simp [e] at h0
      simp only []
      cases hs : stops ub mins data (d % m)
      · simp only [Bool.false_eq_true, if_false]
        have hmin := hmins (d % m) (Nat.mod_lt _ hm)
        obtain ⟨ll, ln⟩ := lower_facts hmin hne hs
        obtain ⟨ul, un⟩ := upper_facts hmin hne hs
        obtain ⟨l, hl, hln⟩ := ih (d + 1) _ (show (data.filter (goesDown (d % m) (midpoint data (d % m)))).length < f by omega)
        obtain ⟨r, hr, hrn⟩ := ih (d + 1) _ (show (data.filter (goesUp (d % m) (midpoint data (d % m)))).length < f by omega)
        rw [hl, hr]
        refine ⟨_, rfl, ?_⟩
        intro _ _
        simp [Tree.noNilBelow, hln ln hm, hrn un hm]
      · simp only [if_true]
        exact ⟨_, rfl, fun _ _ => rfl⟩

end field

/-! ### corrected distributions -/

section distn
variable {K : Type} [Field K] [LinearOrder K] [IsStrictOrderedRing K]

theorem foldl_add (xs : List K) (a : K) : xs.foldl (· + ·) a = a + xs.sum := by
  induction xs generalizing a with
  | nil => simp
  | cons x xs ih => simp only [List.foldl_cons, List.sum_cons, ih]; ring

theorem sumL_eq_sum (xs : List K) : sumL xs = xs.sum := by
  simp [sumL, foldl_add]

theorem sum_map_div (xs : List K) (c : K) : (xs.map (· / c)).sum = xs.sum / c := by
  induction xs with
  | nil => simp
  | cons x xs ih => simp only [List.map_cons, List.sum_cons, ih]; ring

theorem sum_pos_of {xs : List K} (h : ∀ x ∈ xs, 0 < x) (hne : xs ≠ []) : 0 < xs.sum := by
  induction xs with
  | nil => exact absurd rfl hne
  | cons x xs ih =>
    simp only [List.sum_cons]
    by_cases hx : xs = []
    · subst hx; simpa using h x (List.mem_cons_self)
    · have := ih (fun y hy => h y (List.mem_cons_of_mem _ hy)) hx
      have := h x (List.mem_cons_self)
      linarith

/-- the denominator `total + len/2` of `_distn_from_counts` -/
def denom (counts : List Nat) : K := ((counts.sum : Nat) : K) + ((counts.length : Nat) : K) / ((2 : Nat) : K)

theorem distn_eq (counts : List Nat) :
    (distnFromCounts counts : List K) = counts.map (fun c => (((c : Nat) : K) + half) / denom counts) := rfl

theorem denom_pos {counts : List Nat} (h : counts ≠ []) : 0 < (denom counts : K) := by
  have h1 : (0 : K) ≤ ((counts.sum : Nat) : K) := Nat.cast_nonneg _
  have h2 : (0 : K) < ((counts.length : Nat) : K) := by
    exact_mod_cast List.length_pos_iff.mpr h
  have h3 : ((2 : Nat) : K) = 2 := by norm_num
  simp only [denom, h3]
  linarith

theorem half_eq : (half : K) = 1 / 2 := by simp [half]

theorem sum_corrected (xs : List Nat) (D : K) :
    (xs.map (fun c => (((c : Nat) : K) + half) / D)).sum =
      (((xs.sum : Nat) : K) + ((xs.length : Nat) : K) / ((2 : Nat) : K)) / D := by
  induction xs with
  | nil => simp
  | cons x xs ih =>
    rw [List.map_cons, List.sum_cons, ih]
    have h3 : ((2 : Nat) : K) = 2 := by norm_num
    simp only [List.sum_cons, List.length_cons, Nat.cast_add, Nat.cast_one, half_eq, h3]
    ring

/-- the corrected leaf distribution sums to one -/
theorem distn_sum_one {counts : List Nat} (h : counts ≠ []) : sumL (distnFromCounts counts : List K) = 1 := by
  rw [sumL_eq_sum, distn_eq, sum_corrected]
  exact div_self (ne_of_gt (denom_pos h))

theorem distn_pos {counts : List Nat} (h : counts ≠ []) : ∀ x ∈ (distnFromCounts counts : List K), 0 < x := by
  intro x hx
  rw [distn_eq] at hx
  obtain ⟨c, _, rfl⟩ := List.mem_map.mp hx
  have : (0 : K) ≤ ((c : Nat) : K) := Nat.cast_nonneg _
  have hh : (0 : K) < half := by rw [half_eq]; norm_num
  exact div_pos (by linarith) (denom_pos h)

theorem distn_length (counts : List Nat) : (distnFromCounts counts : List K).length = counts.length := by
  simp [distn_eq]

end distn

/-! ### ℝ: Gibbs' inequality -/

section real

noncomputable instance instLogExpReal : HasLogExp ℝ := ⟨Real.log, Real.exp⟩

theorem relEntr_pos_eq {x y : ℝ} (hx : 0 < x) (hy : 0 < y) : relEntr x y = x * Real.log (x / y) := by
  have hx' : ((0 : Nat) : ℝ) < x := by simpa using hx
  have hy' : ((0 : Nat) : ℝ) < y := by simpa using hy
  simp only [relEntr, hx', hy', and_self, if_true]
  rfl

theorem relEntr_ge {x y : ℝ} (hx : 0 < x) (hy : 0 < y) : x - y ≤ relEntr x y := by
  rw [relEntr_pos_eq hx hy, Real.log_div hx.ne' hy.ne']
  have h := Real.log_le_sub_one_of_pos (div_pos hy hx)
  rw [Real.log_div hy.ne' hx.ne'] at h
  have h2 := mul_le_mul_of_nonneg_left h hx.le
  have e : x * (y / x - 1) = y - x := by field_simp
  rw [e] at h2
  linarith

theorem relEntr_self {x : ℝ} (hx : 0 < x) : relEntr x x = 0 := by
  rw [relEntr_pos_eq hx hx, div_self hx.ne', Real.log_one, mul_zero]

theorem gibbs_list : ∀ (ps qs : List ℝ), ps.length = qs.length → (∀ p ∈ ps, 0 < p) → (∀ q ∈ qs, 0 < q) →
    ps.sum - qs.sum ≤ (List.zipWith relEntr ps qs).sum := by
  intro ps
  induction ps with
  | nil => intro qs h _ _; cases qs with
    | nil => simp
    | cons q qs => simp at h
  | cons p ps ih =>
    intro qs h hp hq
    cases qs with
    | nil => simp at h
    | cons q qs =>
      simp only [List.zipWith_cons_cons, List.sum_cons]
      have h1 := relEntr_ge (hp p (List.mem_cons_self)) (hq q (List.mem_cons_self))
      have h2 := ih qs (by simpa using h) (fun x hx => hp x (List.mem_cons_of_mem _ hx))
        (fun x hx => hq x (List.mem_cons_of_mem _ hx))
      linarith

theorem zipWith_relEntr_self : ∀ (ps : List ℝ), (∀ p ∈ ps, 0 < p) → (List.zipWith relEntr ps ps).sum = 0 := by
  intro ps
  induction ps with
  | nil => simp
  | cons p ps ih =>
    intro hp
    simp only [List.zipWith_cons_cons, List.sum_cons, relEntr_self (hp p (List.mem_cons_self)),
      ih (fun x hx => hp x (List.mem_cons_of_mem _ hx)), add_zero]

/-- `scipy.stats.entropy(pk, qk)` of positive vectors of equal length is non-negative -/
theorem entropy_nonneg {pk qk : List ℝ} (hl : pk.length = qk.length) (hp : ∀ p ∈ pk, 0 < p) (hq : ∀ q ∈ qk, 0 < q) :
    0 ≤ entropy pk qk := by
  by_cases hne : pk = []
  · subst hne; simp [entropy, sumL]
  have hne' : qk ≠ [] := by intro e; subst e; simp at hl; exact hne hl
  have sp := sum_pos_of hp hne
  have sq := sum_pos_of hq hne'
  simp only [entropy, sumL_eq_sum]
  have h := gibbs_list (pk.map (· / pk.sum)) (qk.map (· / qk.sum)) (by simp [hl])
    (by intro x hx; obtain ⟨y, hy, rfl⟩ := List.mem_map.mp hx; exact div_pos (hp y hy) sp)
    (by intro x hx; obtain ⟨y, hy, rfl⟩ := List.mem_map.mp hx; exact div_pos (hq y hy) sq)
  rw [sum_map_div, sum_map_div, div_self sp.ne', div_self sq.ne'] at h
  linarith

theorem entropy_self {pk : List ℝ} (hp : ∀ p ∈ pk, 0 < p) : entropy pk pk = 0 := by
  by_cases hne : pk = []
  · subst hne; simp [entropy, sumL]
  have sp := sum_pos_of hp hne
  simp only [entropy, sumL_eq_sum]
  exact zipWith_relEntr_self _ (by intro x hx; obtain ⟨y, hy, rfl⟩ := List.mem_map.mp hx; exact div_pos (hp y hy) sp)

/-- normalisation inside `entropy` is the identity on vectors that sum to one: the value is the
    textbook sum `Σ p log (p / q)` -/
theorem entropy_eq_sum {pk qk : List ℝ} (h1 : sumL pk = 1) (h2 : sumL qk = 1) :
    entropy pk qk = (List.zipWith relEntr pk qk).sum := by
  simp only [entropy, h1, h2, div_one, List.map_id', sumL_eq_sum]

end real

end MV.Kdq
