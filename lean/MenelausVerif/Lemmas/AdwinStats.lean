/-
  Field-level lemmas for ADWIN's statistics: chunks are summarised by
  (size n, S = sum, Q = sum of squares); Σ(x − x̄)² = Q − S²/n; the add-one update,
  the Chan merge of two equal-size chunks and the removal of the oldest chunk are
  field identities on such triples.
-/
import MenelausVerif.Lemmas.AdwinStruct
import Mathlib.Tactic.Ring
import Mathlib.Tactic.FieldSimp
import Mathlib.Tactic.LinearCombination
import Mathlib.Algebra.Order.Field.Basic
import Mathlib.Algebra.BigOperators.Group.List.Basic
set_option linter.unusedSectionVars false
namespace MV.Adwin

variable {K : Type} [Field K] [LinearOrder K] [IsStrictOrderedRing K]

/-- sum of squares -/
def sqs (l : List K) : K := (l.map (fun x => x * x)).sum

@[simp] theorem sqs_nil : sqs ([] : List K) = 0 := rfl
@[simp] theorem sqs_cons (x : K) (l : List K) : sqs (x :: l) = x * x + sqs l := by simp [sqs]
@[simp] theorem sqs_append (a b : List K) : sqs (a ++ b) = sqs a + sqs b := by simp [sqs]

/-- sum of squared deviations from the list's own mean -/
def dev (l : List K) : K := (l.map (fun x => (x - l.sum / (l.length : K)) * (x - l.sum / (l.length : K)))).sum

theorem sum_sq_sub (l : List K) (m : K) :
    (l.map (fun x => (x - m) * (x - m))).sum = sqs l - 2 * m * l.sum + (l.length : K) * m * m := by
  induction l with
  | nil => simp
  | cons x l ih => simp only [List.map_cons, List.sum_cons, sqs_cons, List.length_cons, Nat.cast_succ, ih]; ring

/-- Σ(x − x̄)² = Q − S²/n -/
theorem dev_eq (l : List K) : dev l = sqs l - l.sum ^ 2 / (l.length : K) := by
  unfold dev
  rw [sum_sq_sub]
  by_cases h : (l.length : K) = 0
  · have : l = [] := by
      have : l.length = 0 := by exact_mod_cast h
      simpa using this
    subst this; simp
  · field_simp; ring

/-- add-one update of `_add_sample` on triples: `n ≥ 1` old samples -/
theorem add_one_identity (n : Nat) (hn : 1 ≤ n) (S Q x : K) :
    (Q - S ^ 2 / (n : K)) + ((n : K)) * (x - S / (n : K)) * (x - S / (n : K)) / ((n + 1 : Nat) : K)
      = (Q + x * x) - (S + x) ^ 2 / ((n + 1 : Nat) : K) := by
  have h1 : (n : K) ≠ 0 := by exact_mod_cast (by omega : n ≠ 0)
  have h2 : ((n + 1 : Nat) : K) ≠ 0 := by exact_mod_cast (by omega : n + 1 ≠ 0)
  push_cast at h2 ⊢
  field_simp
  ring

/-- Chan merge of two chunks of equal size `n ≥ 1` -/
theorem chan_identity (n : Nat) (hn : 1 ≤ n) (S0 Q0 S1 Q1 : K) :
    (Q0 - S0 ^ 2 / (n : K)) + (Q1 - S1 ^ 2 / (n : K))
        + (n : K) * (S0 / (n : K) - S1 / (n : K)) * (S0 / (n : K) - S1 / (n : K)) / ((2 : Nat) : K)
      = (Q0 + Q1) - (S0 + S1) ^ 2 / ((n + n : Nat) : K) := by
  have h1 : (n : K) ≠ 0 := by exact_mod_cast (by omega : n ≠ 0)
  push_cast
  field_simp
  ring

/-- removal of the oldest chunk (size `n ≥ 1`) from a window that keeps `w ≥ 1` samples -/
theorem remove_identity (n w : Nat) (hn : 1 ≤ n) (hw : 1 ≤ w) (S0 Q0 S Q : K) :
    ((Q0 + Q) - (S0 + S) ^ 2 / ((n + w : Nat) : K))
        - ((Q0 - S0 ^ 2 / (n : K))
            + ((n * w : Nat) : K) * (S0 / (n : K) - S / (w : K)) * (S0 / (n : K) - S / (w : K)) / ((n + w : Nat) : K))
      = Q - S ^ 2 / (w : K) := by
  have h1 : (n : K) ≠ 0 := by exact_mod_cast (by omega : n ≠ 0)
  have h2 : (w : K) ≠ 0 := by exact_mod_cast (by omega : w ≠ 0)
  have h3 : ((n : K) + (w : K)) ≠ 0 := by exact_mod_cast (by omega : n + w ≠ 0)
  push_cast
  field_simp
  ring

/-! ### buckets summarise chunks of the window -/

/-- bucket `b = (total, variance)` summarises the chunk `l` of `n` samples exactly -/
def Exact (n : Nat) (b : K × K) (l : List K) : Prop :=
  l.length = n ∧ b.1 = l.sum ∧ b.2 = sqs l - l.sum ^ 2 / (n : K)

/-- the traversal list (oldest bucket first) summarises the consecutive chunks `cs` -/
def Good : List (Nat × Bucket K) → List (List K) → Prop
  | [], [] => True
  | e :: fl, l :: cs => Exact (2 ^ e.1) e.2 l ∧ Good fl cs
  | _, _ => False

theorem good_nil_left (cs : List (List K)) : Good [] cs ↔ cs = [] := by
  cases cs <;> simp [Good]

theorem good_cons_left (e : Nat × Bucket K) (fl) (cs : List (List K)) :
    Good (e :: fl) cs ↔ ∃ l cs', cs = l :: cs' ∧ Exact (2 ^ e.1) e.2 l ∧ Good fl cs' := by
  cases cs with
  | nil => simp [Good]
  | cons l cs' => simp [Good]

theorem good_append {a b : List (Nat × Bucket K)} {ca cb : List (List K)} (ha : Good a ca) (hb : Good b cb) :
    Good (a ++ b) (ca ++ cb) := by
  induction a generalizing ca with
  | nil => rw [good_nil_left] at ha; subst ha; simpa using hb
  | cons e a ih =>
    rw [good_cons_left] at ha
    obtain ⟨l, cs', rfl, he, hg⟩ := ha
    exact ⟨he, ih hg⟩

theorem good_split {a b : List (Nat × Bucket K)} {cs : List (List K)} (h : Good (a ++ b) cs) :
    ∃ ca cb, cs = ca ++ cb ∧ Good a ca ∧ Good b cb := by
  induction a generalizing cs with
  | nil => exact ⟨[], cs, rfl, trivial, by simpa using h⟩
  | cons e a ih =>
    rw [List.cons_append, good_cons_left] at h
    obtain ⟨l, cs', rfl, he, hg⟩ := h
    obtain ⟨ca, cb, rfl, h1, h2⟩ := ih hg
    exact ⟨l :: ca, cb, rfl, ⟨he, h1⟩, h2⟩

theorem good_length {fl : List (Nat × Bucket K)} {cs : List (List K)} (h : Good fl cs) :
    cs.flatten.length = sizeOf fl := by
  induction fl generalizing cs with
  | nil => rw [good_nil_left] at h; subst h; rfl
  | cons e fl ih =>
    rw [good_cons_left] at h
    obtain ⟨l, cs', rfl, he, hg⟩ := h
    simp [ih hg, he.1]

/-- the Chan merge summarises the concatenation of the two chunks -/
theorem exact_merge (i : Nat) (b0 b1 : Bucket K) (l0 l1 : List K)
    (h0 : Exact (2 ^ i) b0 l0) (h1 : Exact (2 ^ i) b1 l1) :
    Exact (2 ^ (i + 1)) (merge i b0 b1) (l0 ++ l1) := by
  obtain ⟨a0, a1, a2⟩ := h0
  obtain ⟨c0, c1, c2⟩ := h1
  have hp : 1 ≤ 2 ^ i := Nat.one_le_two_pow
  refine ⟨by simp [a0, c0, Nat.pow_succ]; omega, by simp [merge, a1, c1], ?_⟩
  have := chan_identity (2 ^ i) hp l0.sum (sqs l0) l1.sum (sqs l1)
  simp only [merge, a1, a2, c1, c2, List.sum_append, sqs_append]
  rw [this, show 2 ^ (i + 1) = 2 ^ i + 2 ^ i by rw [Nat.pow_succ]; omega]

/-- merging keeps the summarised window -/
theorem Merges.good {a b : List (Nat × Bucket K)} (h : Merges a b) :
    ∀ cs, Good a cs → ∃ cs', Good b cs' ∧ cs'.flatten = cs.flatten := by
  induction h with
  | refl fl => intro cs h; exact ⟨cs, h, rfl⟩
  | step A B i b0 b1 fl _ ih =>
    intro cs h
    obtain ⟨ca, cb, rfl, hA, hB⟩ := good_split h
    rw [good_cons_left] at hB
    obtain ⟨l0, cs1, rfl, e0, hB⟩ := hB
    rw [good_cons_left] at hB
    obtain ⟨l1, cs2, rfl, e1, hB⟩ := hB
    have hg : Good (A ++ (i + 1, merge i b0 b1) :: B) (ca ++ (l0 ++ l1) :: cs2) :=
      good_append hA ⟨exact_merge i b0 b1 l0 l1 e0 e1, hB⟩
    obtain ⟨cs', h1, h2⟩ := ih _ hg
    exact ⟨cs', h1, by rw [h2]; simp⟩

theorem good_take {fl : List (Nat × Bucket K)} {cs : List (List K)} (h : Good fl cs) (m : Nat) :
    Good (fl.take m) (cs.take m) := by
  induction fl generalizing cs m with
  | nil => rw [good_nil_left] at h; subst h; simp [Good]
  | cons e fl ih =>
    rw [good_cons_left] at h
    obtain ⟨l, cs', rfl, he, hg⟩ := h
    cases m with
    | zero => simp [Good]
    | succ m => exact ⟨he, ih hg m⟩

theorem good_totals {fl : List (Nat × Bucket K)} {cs : List (List K)} (h : Good fl cs) :
    (fl.map (fun e => e.2.1)).sum = cs.flatten.sum := by
  induction fl generalizing cs with
  | nil => rw [good_nil_left] at h; subst h; simp
  | cons e fl ih =>
    rw [good_cons_left] at h
    obtain ⟨l, cs', rfl, he, hg⟩ := h
    simp [ih hg, he.2.1]

theorem accT0_eq (t0 : K) (pre : List (Nat × Bucket K)) :
    accT0 t0 pre = t0 + (pre.map (fun e => e.2.1)).sum := by
  unfold accT0
  induction pre generalizing t0 with
  | nil => simp
  | cons e pre ih => simp [ih]; ring

theorem accT1_eq (t1 : K) (pre : List (Nat × Bucket K)) :
    accT1 t1 pre = t1 - (pre.map (fun e => e.2.1)).sum := by
  unfold accT1
  induction pre generalizing t1 with
  | nil => simp
  | cons e pre ih => simp [ih]; ring

/-- the older part accumulated by a scan up to a bucket boundary is a prefix of the window -/
theorem good_prefix {fl : List (Nat × Bucket K)} {cs : List (List K)} (h : Good fl cs) (m : Nat) :
    ((fl.take m).map (fun e => e.2.1)).sum = (cs.flatten.take (sizeOf (fl.take m))).sum := by
  have ht := good_take h m
  rw [good_totals ht, ← good_length ht]
  congr 1
  conv_rhs => rw [← List.take_append_drop m cs, List.flatten_append]
  simp

theorem absOf_eq_abs (x : K) : absOf x = |x| := by
  unfold absOf
  split
  · rename_i h; rw [abs_of_neg (by simpa using h)]
  · rename_i h; rw [abs_of_nonneg (by simpa using h)]

/-! ### the exact-statistics invariant of a state -/

/-- `win` is the window of the state: the buckets (oldest first) summarise consecutive chunks of
    `win` of sizes `2^row`, and the running total / variance are those of `win` -/
structure FInv (s : State K) (win : List K) : Prop where
  good : ∃ cs, Good (flat s.rows) cs ∧ cs.flatten = win
  len : win.length = s.W
  sum : s.sum = win.sum
  var : s.var = sqs win - win.sum ^ 2 / (s.W : K)

theorem finv_init : FInv (init : State K) [] :=
  { good := ⟨[], by simp [init, flat, Good], rfl⟩, len := rfl, sum := by simp [init], var := by simp [init] }

/-- `_add_sample` (after `_window_size += 1`) -/
theorem finv_addSample (M : Nat) (s1 : State K) (win : List K) (x : K)
    (hW : s1.W = win.length + 1) (hg : ∃ cs, Good (flat s1.rows) cs ∧ cs.flatten = win)
    (hsum : s1.sum = win.sum) (hvar : s1.var = sqs win - win.sum ^ 2 / (win.length : K)) :
    FInv (addSample M s1 x) (win ++ [x]) := by
  obtain ⟨cs, hgood, hfl⟩ := hg
  have hm : Merges (flat s1.rows ++ [(0, (x, ((0 : Nat) : K)))]) (flat (compress M 0 none (pushHead x s1.rows))) := by
    have := compress_merges M (pushHead x s1.rows) 0 none
    simp only [carryRows] at this
    rw [← flat_pushHead]; exact this
  have hx : Good [(0, (x, ((0 : Nat) : K)))] [[x]] := by
    refine ⟨⟨by simp, by simp, ?_⟩, trivial⟩
    simp [sqs]; ring
  obtain ⟨cs', h1, h2⟩ := hm.good _ (good_append hgood hx)
  refine { good := ⟨cs', h1, by rw [h2]; simp [hfl]⟩, len := by simp [addSample, hW],
           sum := by simp [addSample, hsum], var := ?_ }
  simp only [addSample]
  by_cases h1 : s1.W > 1
  · rw [if_pos h1, hvar, hsum]
    have hn : 1 ≤ win.length := by omega
    have := add_one_identity win.length hn win.sum (sqs win) x
    rw [show s1.W - 1 = win.length by omega, hW]
    simp only [sqs_append, List.sum_append, List.sum_cons, List.sum_nil, add_zero, sqs_cons, sqs_nil]
    exact this
  · rw [if_neg h1, hvar]
    have : win = [] := by
      have : win.length = 0 := by omega
      simpa using this
    subst this
    simp [hW]; ring

/-- `_remove_last` of an oldest bucket smaller than the window -/
theorem finv_removeLast (s : State K) (win : List K) (hsh : Shape s.rows s.W) (hf : FInv s win)
    (j : Nat) (b : Bucket K) (rest : List (Nat × Bucket K)) (hfl : flat s.rows = (j, b) :: rest)
    (hlt : 2 ^ j < s.W) : FInv (removeLast s) (win.drop (2 ^ j)) := by
  obtain ⟨_, h2, h3, _, hj, hb⟩ := shape_removeLast s hsh j b rest hfl hlt
  obtain ⟨cs, hgood, hflat⟩ := hf.good
  rw [hfl, good_cons_left] at hgood
  obtain ⟨l0, cs', rfl, ⟨e0, e1, e2⟩, hg⟩ := hgood
  simp only at e0 e1 e2
  have hwin : win = l0 ++ cs'.flatten := by rw [← hflat]; simp
  have hdrop : win.drop (2 ^ j) = cs'.flatten := by
    rw [hwin, ← e0]; simp
  have hlen' : cs'.flatten.length = s.W - 2 ^ j := by
    have := hf.len; rw [hwin, List.length_append] at this; omega
  have hp : 1 ≤ 2 ^ j := Nat.one_le_two_pow
  rw [hdrop]
  refine { good := ⟨cs', by rw [h2]; exact hg, rfl⟩, len := by rw [h3]; exact hlen', sum := ?_, var := ?_ }
  · simp only [removeLast, ← hb]
    rw [hf.sum, hwin, e1]; simp
  · have hid := remove_identity (2 ^ j) (s.W - 2 ^ j) hp (by omega) l0.sum (sqs l0) cs'.flatten.sum (sqs cs'.flatten)
    simp only [removeLast, ← hb, ← hj]
    rw [hf.var, hf.sum, hwin, e1, e2]
    simp only [List.sum_append, sqs_append, add_sub_cancel_left]
    have e : 2 ^ j + (s.W - 2 ^ j) = s.W := by omega
    rw [e] at hid ⊢
    exact hid

end MV.Adwin
