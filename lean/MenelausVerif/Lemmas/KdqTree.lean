/-
  Helper definitions and lemmas for C08 (kdq-tree partitioner): counts dictionaries,
  the declarative description `Built` of what `build` returns, routing of points.
  No arithmetic law is used here: everything holds for every carrier.
-/
import MenelausVerif.Model.KdqTree
set_option linter.unusedSimpArgs false
set_option linter.unusedSectionVars false
namespace MV.Kdq

/-! ### dictionaries -/

theorem cget_cset (c : Counts) (i v j : Nat) :
    cget (cset c i v) j = if j = i then some v else cget c j := by
  induction c with
  | nil => simp [cset, cget]; grind
  | cons kv cs ih =>
    obtain ⟨k, w⟩ := kv
    simp only [cset]
    by_cases h : k = i
    · subst h; simp only [if_true, cget]; grind
    · simp only [h, if_false, cget, ih]; grind

theorem cget_cbump (c : Counts) (i n : Nat) (rs : Bool) (j : Nat) :
    cget (cbump c i n rs) j =
      if j = i then some (if rs then n else match cget c i with | some o => o + n | none => n)
      else cget c j := by
  unfold cbump
  cases h : cget c i with
  | none => simp [cget_cset]
  | some o => cases rs <;> simp [cget_cset]

theorem cget_cbump_self (c : Counts) (i n : Nat) (rs : Bool) :
    cget (cbump c i n rs) i = some (if rs then n else match cget c i with | some o => o + n | none => n) := by
  rw [cget_cbump]; simp

theorem cget_cbump_ne (c : Counts) (i n : Nat) (rs : Bool) {j : Nat} (h : j ≠ i) :
    cget (cbump c i n rs) j = cget c j := by
  rw [cget_cbump]; simp [h]


/-! ### routing -/

section routing
variable {α : Type} [Inhabited α] [LT α] [DecidableLT α] [LE α] [DecidableLE α]

/-- the two routing tests of `build` / `fill` are complementary: `x > mid ↔ ¬ x ≤ mid`.
    True in every linear order; for `Float` it fails only on NaN. -/
def Compl (α : Type) [LT α] [LE α] : Prop := ∀ x mid : α, mid < x ↔ ¬ x ≤ mid

theorem goesUp_eq_not_goesDown (hc : Compl α) (a : Nat) (mid : α) (p : List α) :
    goesUp a mid p = !goesDown a mid p := by
  unfold goesUp goesDown
  generalize p.getD a default = x
  have := hc x mid
  by_cases h : x ≤ mid <;> simp [h, this]

/-- both halves together are all the rows -/
theorem split_length (hc : Compl α) (a : Nat) (mid : α) (pts : List (List α)) :
    (pts.filter (goesUp a mid)).length + (pts.filter (goesDown a mid)).length = pts.length := by
  induction pts with
  | nil => simp
  | cons p ps ih =>
    have h := goesUp_eq_not_goesDown hc a mid p
    cases hd : goesDown a mid p <;> simp [h, hd] <;> omega

end routing

/-! ### structure-level predicates -/

section preds
variable {α : Type}

/-- every node's count for `id` equals the sum of its children's counts (a `None` child counts 0) -/
def ChildrenSum (id : Nat) : Tree α → Prop
  | .node a mid c l r =>
    (Tree.node a mid c l r).rootCount id = l.rootCount id + r.rootCount id ∧ ChildrenSum id l ∧ ChildrenSum id r
  | _ => True

/-- every node object carries the key `id` -/
def Present (id : Nat) : Tree α → Prop
  | .nil => True
  | .leaf c => (cget c id).isSome
  | .node _ _ c l r => (cget c id).isSome ∧ Present id l ∧ Present id r

/-- no node object carries the key `id` -/
def Absent (id : Nat) : Tree α → Prop
  | .nil => True
  | .leaf c => cget c id = none
  | .node _ _ c l r => cget c id = none ∧ Absent id l ∧ Absent id r

/-- pre-order list of the dictionary entries for `id` -/
def nodeCounts (id : Nat) : Tree α → List (Option Nat)
  | .nil => []
  | .leaf c => [cget c id]
  | .node _ _ c l r => cget c id :: (nodeCounts id l ++ nodeCounts id r)

/-- the tree with all dictionaries erased (splits only) -/
def skeleton : Tree α → Tree α
  | .nil => .nil
  | .leaf _ => .leaf []
  | .node a mid _ l r => .node a mid [] (skeleton l) (skeleton r)

@[simp] theorem rootCount_nil (i : Nat) : (Tree.nil : Tree α).rootCount i = 0 := rfl
@[simp] theorem rootCount_leaf (c : Counts) (i : Nat) : (Tree.leaf c : Tree α).rootCount i = (cget c i).getD 0 := rfl
@[simp] theorem rootCount_node (a : Nat) (mid : α) (c : Counts) (l r : Tree α) (i : Nat) :
    (Tree.node a mid c l r).rootCount i = (cget c i).getD 0 := rfl

theorem leafSum_eq_rootCount (id : Nat) (t : Tree α) (h : ChildrenSum id t) :
    (leafCountsD t id).sum = t.rootCount id := by
  induction t with
  | nil => simp [leafCountsD, Tree.leaves]
  | leaf c => simp [leafCountsD, Tree.leaves]
  | node a mid c l r ihl ihr =>
    obtain ⟨h1, h2, h3⟩ := h
    have hl := ihl h2
    have hr := ihr h3
    simp only [leafCountsD] at hl hr ⊢
    simp only [Tree.leaves, List.map_append, List.sum_append, hl, hr, h1]

end preds

/-! ### what `build` returns: a declarative description -/

section built
variable {α : Type} [Inhabited α] [Add α] [Sub α] [Mul α] [Div α] [LT α] [DecidableLT α]
  [LE α] [DecidableLE α] [NatCast α] [BEq α]

/-- `Built ub mins m d data t`: `t` is the kdq-tree of the rows `data` at depth `d`:
    `None` for no rows, a leaf carrying the row count when the stop rule applies, otherwise a
    node splitting axis `d mod m` at the midpoint of the rows' range on that axis, whose
    children are the trees of the rows `≤ mid` and `> mid` at depth `d + 1`. -/
inductive Built (ub : Nat) (mins : List α) (m : Nat) : Nat → List (List α) → Tree α → Prop
  | nil {d : Nat} {data : List (List α)} (h : data.length = 0 ∨ m = 0) : Built ub mins m d data .nil
  | leaf {d : Nat} {data : List (List α)} (h : ¬ (data.length = 0 ∨ m = 0))
      (hs : stops ub mins data (d % m) = true) : Built ub mins m d data (.leaf [(0, data.length)])
  | node {d : Nat} {data : List (List α)} {l r : Tree α} (h : ¬ (data.length = 0 ∨ m = 0))
      (hs : stops ub mins data (d % m) = false)
      (hl : Built ub mins m (d + 1) (data.filter (goesDown (d % m) (midpoint data (d % m)))) l)
      (hr : Built ub mins m (d + 1) (data.filter (goesUp (d % m) (midpoint data (d % m)))) r) :
      Built ub mins m d data
        (.node (d % m) (midpoint data (d % m))
          [(0, (data.filter (goesUp (d % m) (midpoint data (d % m)))).length +
               (data.filter (goesDown (d % m) (midpoint data (d % m)))).length)] l r)

omit [Mul α] in
theorem buildAux_built (ub : Nat) (mins : List α) (m : Nat) :
    ∀ (fuel d : Nat) (data : List (List α)) (t : Tree α),
      buildAux ub mins m fuel d data = some t → Built ub mins m d data t := by
  intro fuel
  induction fuel with
  | zero => intro d data t h; simp [buildAux] at h
  | succ f ih =>
    intro d data t h
    unfold buildAux at h
    by_cases h0 : data.length = 0 ∨ m = 0
    · rw [if_pos h0] at h
      cases h; exact .nil h0
    · rw [if_neg h0] at h
      simp only [] at h
      cases hs : stops ub mins data (d % m)
      · rw [hs] at h
        simp only [Bool.false_eq_true, if_false] at h
        cases hl : buildAux ub mins m f (d + 1) (data.filter (goesDown (d % m) (midpoint data (d % m)))) with
        | none => rw [hl] at h; simp at h
        | some l =>
          cases hr : buildAux ub mins m f (d + 1) (data.filter (goesUp (d % m) (midpoint data (d % m)))) with
          | none => rw [hl, hr] at h; simp at h
          | some r =>
            rw [hl, hr] at h
            cases h
            exact .node h0 hs (ih _ _ _ hl) (ih _ _ _ hr)
      · rw [hs] at h
        simp only [if_true] at h
        cases h; exact .leaf h0 hs

end built

/-! ### fill -/

section fill
variable {α : Type} [Inhabited α] [LT α] [DecidableLT α] [LE α] [DecidableLE α]

/-- number of rows of `pts` that reach every node object (pre-order) under the stored splits -/
def routed : Tree α → List (List α) → List Nat
  | .nil, _ => []
  | .leaf _, pts => [pts.length]
  | .node a mid _ l r, pts =>
    pts.length :: (routed l (pts.filter (goesDown a mid)) ++ routed r (pts.filter (goesUp a mid)))

/-- the new dictionary entry written by `fill` -/
def bumped (rs : Bool) (old : Option Nat) (k : Nat) : Nat :=
  if rs then k else match old with | some o => o + k | none => k

theorem skeleton_fill (id : Nat) (rs : Bool) (t : Tree α) :
    ∀ pts : List (List α), skeleton (fill id rs pts t) = skeleton t := by
  induction t with
  | nil => intro pts; simp [fill]
  | leaf c => intro pts; simp [fill, skeleton]
  | node a mid c l r ihl ihr => intro pts; simp [fill, skeleton, ihl, ihr]

theorem nodeCounts_fill_ne (id : Nat) (rs : Bool) {j : Nat} (hj : j ≠ id) (t : Tree α) :
    ∀ pts : List (List α), nodeCounts j (fill id rs pts t) = nodeCounts j t := by
  induction t with
  | nil => intro pts; simp [fill]
  | leaf c => intro pts; simp [fill, nodeCounts, cget_cbump_ne _ _ _ _ hj]
  | node a mid c l r ihl ihr => intro pts; simp [fill, nodeCounts, cget_cbump_ne _ _ _ _ hj, ihl, ihr]

theorem routed_length (id : Nat) (t : Tree α) :
    ∀ pts : List (List α), (routed t pts).length = (nodeCounts id t).length := by
  induction t with
  | nil => intro pts; simp [routed, nodeCounts]
  | leaf c => intro pts; simp [routed, nodeCounts]
  | node a mid c l r ihl ihr => intro pts; simp [routed, nodeCounts, ihl, ihr]

/-- `fill` at every node object: the entry for `id` becomes the number of rows of the sample
    that reach the node, added to the previous entry unless `reset` is set or there was none. -/
theorem nodeCounts_fill (hc : Compl α) (id : Nat) (rs : Bool) (t : Tree α) :
    ∀ pts : List (List α), nodeCounts id (fill id rs pts t) =
      List.zipWith (fun old k => some (bumped rs old k)) (nodeCounts id t) (routed t pts) := by
  induction t with
  | nil => intro pts; simp [fill, nodeCounts, routed]
  | leaf c =>
    intro pts
    simp only [fill, nodeCounts, routed, cget_cbump_self, bumped, List.zipWith_cons_cons, List.zipWith_nil_left]
  | node a mid c l r ihl ihr =>
    intro pts
    simp only [fill, nodeCounts, routed, cget_cbump_self, List.zipWith_cons_cons, ihl, ihr]
    rw [List.zipWith_append (by rw [routed_length id])]
    simp only [bumped, split_length hc]

theorem fill_other (id : Nat) (rs : Bool) {j : Nat} (hj : j ≠ id) (t : Tree α) :
    ∀ pts : List (List α),
      (fill id rs pts t).rootCount j = t.rootCount j ∧
      (ChildrenSum j t → ChildrenSum j (fill id rs pts t)) ∧
      (Present j t → Present j (fill id rs pts t)) ∧
      (Absent j t → Absent j (fill id rs pts t)) := by
  induction t with
  | nil => intro pts; simp [fill]
  | leaf c => intro pts; simp [fill, rootCount_nil, rootCount_leaf, rootCount_node, ChildrenSum, Present, Absent, cget_cbump_ne _ _ _ _ hj]
  | node a mid c l r ihl ihr =>
    intro pts
    obtain ⟨l1, l2, l3, l4⟩ := ihl (pts.filter (goesDown a mid))
    obtain ⟨r1, r2, r3, r4⟩ := ihr (pts.filter (goesUp a mid))
    simp only [fill, rootCount_nil, rootCount_leaf, rootCount_node, ChildrenSum, Present, Absent, cget_cbump_ne _ _ _ _ hj, l1, r1]
    refine ⟨trivial, ?_, ?_, ?_⟩
    · rintro ⟨h1, h2, h3⟩; exact ⟨h1, l2 h2, r2 h3⟩
    · rintro ⟨h1, h2, h3⟩; exact ⟨h1, l3 h2, r3 h3⟩
    · rintro ⟨h1, h2, h3⟩; exact ⟨h1, l4 h2, r4 h3⟩

/-- `fill` that overwrites (reset requested, or the id is new): children sums hold and the root
    carries the sample size -/
theorem fill_fresh (hc : Compl α) (id : Nat) (rs : Bool) (t : Tree α) :
    ∀ pts : List (List α), t.noNilBelow = true → (rs = true ∨ Absent id t) →
      ChildrenSum id (fill id rs pts t) ∧ Present id (fill id rs pts t) ∧
      (fill id rs pts t).rootCount id = pts.length := by
  induction t with
  | nil => intro pts h; simp [Tree.noNilBelow] at h
  | leaf c =>
    intro pts _ h
    simp only [fill, ChildrenSum, Present, rootCount_nil, rootCount_leaf, rootCount_node, cget_cbump_self, Option.isSome_some, Option.getD_some, true_and]
    rcases h with h | h
    · simp [h]
    · simp only [Absent] at h; simp [h]
  | node a mid c l r ihl ihr =>
    intro pts hn h
    simp only [Tree.noNilBelow, Bool.and_eq_true] at hn
    have hl : rs = true ∨ Absent id l := h.imp (fun h => h) (fun h => h.2.1)
    have hr : rs = true ∨ Absent id r := h.imp (fun h => h) (fun h => h.2.2)
    obtain ⟨l1, l2, l3⟩ := ihl (pts.filter (goesDown a mid)) hn.1 hl
    obtain ⟨r1, r2, r3⟩ := ihr (pts.filter (goesUp a mid)) hn.2 hr
    have hv : (if rs = true then (pts.filter (goesUp a mid)).length + (pts.filter (goesDown a mid)).length
        else match cget c id with
          | some o => o + ((pts.filter (goesUp a mid)).length + (pts.filter (goesDown a mid)).length)
          | none => (pts.filter (goesUp a mid)).length + (pts.filter (goesDown a mid)).length) = pts.length := by
      rcases h with h | h
      · simp [h, split_length hc]
      · simp only [Absent] at h; simp [h.1, split_length hc]
    simp only [fill, ChildrenSum, Present, rootCount_nil, rootCount_leaf, rootCount_node, cget_cbump_self, Option.isSome_some, Option.getD_some,
      true_and, hv]
    refine ⟨⟨?_, l1, r1⟩, ⟨l2, r2⟩, trivial⟩
    rw [l3, r3]; have := split_length hc a mid pts; omega

/-- `fill` that accumulates on an id present at every node -/
theorem fill_accum (hc : Compl α) (id : Nat) (t : Tree α) :
    ∀ pts : List (List α), t.noNilBelow = true → Present id t → ChildrenSum id t →
      ChildrenSum id (fill id false pts t) ∧ Present id (fill id false pts t) ∧
      (fill id false pts t).rootCount id = t.rootCount id + pts.length := by
  induction t with
  | nil => intro pts h; simp [Tree.noNilBelow] at h
  | leaf c =>
    intro pts _ hp _
    simp only [Present] at hp
    obtain ⟨o, ho⟩ := Option.isSome_iff_exists.mp hp
    simp [fill, ChildrenSum, Present, rootCount_nil, rootCount_leaf, rootCount_node, cget_cbump_self, ho]
  | node a mid c l r ihl ihr =>
    intro pts hn hp hs
    simp only [Tree.noNilBelow, Bool.and_eq_true] at hn
    obtain ⟨hp0, hpl, hpr⟩ := hp
    obtain ⟨hs0, hsl, hsr⟩ := hs
    obtain ⟨l1, l2, l3⟩ := ihl (pts.filter (goesDown a mid)) hn.1 hpl hsl
    obtain ⟨r1, r2, r3⟩ := ihr (pts.filter (goesUp a mid)) hn.2 hpr hsr
    obtain ⟨o, ho⟩ := Option.isSome_iff_exists.mp hp0
    simp only [rootCount_nil, rootCount_leaf, rootCount_node, ho, Option.getD_some] at hs0
    simp only [fill, ChildrenSum, Present, rootCount_nil, rootCount_leaf, rootCount_node, cget_cbump_self, ho, Option.isSome_some, Option.getD_some,
      true_and, Bool.false_eq_true, if_false]
    refine ⟨⟨?_, l1, r1⟩, ⟨l2, r2⟩, ?_⟩
    · rw [l3, r3]; have := split_length hc a mid pts; omega
    · have := split_length hc a mid pts; omega

theorem noNilBelow_fill (id : Nat) (rs : Bool) (t : Tree α) :
    ∀ pts : List (List α), (fill id rs pts t).noNilBelow = t.noNilBelow := by
  induction t with
  | nil => intro pts; rfl
  | leaf c => intro pts; rfl
  | node a mid c l r ihl ihr => intro pts; simp only [fill, Tree.noNilBelow, ihl, ihr]

theorem leafCountsD_fill_ne (id : Nat) (rs : Bool) {j : Nat} (hj : j ≠ id) (t : Tree α) :
    ∀ pts : List (List α), leafCountsD (fill id rs pts t) j = leafCountsD t j := by
  induction t with
  | nil => intro pts; rfl
  | leaf c => intro pts; simp [fill, leafCountsD, Tree.leaves, cget_cbump_ne _ _ _ _ hj]
  | node a mid c l r ihl ihr =>
    intro pts
    have el := ihl (pts.filter (goesDown a mid))
    have er := ihr (pts.filter (goesUp a mid))
    simp only [leafCountsD] at el er ⊢
    simp only [fill, Tree.leaves, List.map_append, el, er]

theorem absent_childrenSum (id : Nat) (t : Tree α) (h : Absent id t) : ChildrenSum id t ∧ t.rootCount id = 0 := by
  induction t with
  | nil => simp [ChildrenSum]
  | leaf c => simp only [Absent] at h; simp [ChildrenSum, h]
  | node a mid c l r ihl ihr =>
    obtain ⟨h0, hl, hr⟩ := h
    obtain ⟨l1, l2⟩ := ihl hl
    obtain ⟨r1, r2⟩ := ihr hr
    simp [ChildrenSum, h0, l1, l2, r1, r2]

theorem present_or_absent_fill (id : Nat) (rs : Bool) (t : Tree α) :
    ∀ pts : List (List α), Present id (fill id rs pts t) := by
  induction t with
  | nil => intro pts; simp [fill, Present]
  | leaf c => intro pts; simp [fill, Present, cget_cbump_self]
  | node a mid c l r ihl ihr => intro pts; simp [fill, Present, cget_cbump_self, ihl, ihr]

end fill

/-! ### consequences of `Built` -/

section built2
variable {α : Type} [Inhabited α] [Add α] [Sub α] [Div α] [LT α] [DecidableLT α]
  [LE α] [DecidableLE α] [NatCast α] [BEq α]

/-- with at least one column: the build counts satisfy the children-sum rule, the root carries
    the number of rows, `"build"` (0) is the only key -/
theorem Built.wf (hc : Compl α) {ub : Nat} {mins : List α} {m d : Nat} {data : List (List α)} {t : Tree α}
    (hm : 0 < m) (h : Built ub mins m d data t) :
    ChildrenSum 0 t ∧ t.rootCount 0 = data.length ∧ Present 0 t ∧ ∀ j, j ≠ 0 → Absent j t := by
  induction h with
  | nil h =>
    have : _ = 0 := h.resolve_right (by omega)
    simp [ChildrenSum, Present, Absent, this]
  | leaf h hs =>
    simp only [ChildrenSum, Present, Absent, rootCount_leaf, cget, if_true, Option.getD_some, Option.isSome_some, true_and]
    intro j hj
    simp [Ne.symm hj]
  | @node d data l r h hs hl hr ihl ihr =>
    obtain ⟨l1, l2, l3, l4⟩ := ihl
    obtain ⟨r1, r2, r3, r4⟩ := ihr
    simp only [ChildrenSum, Present, Absent, rootCount_node, cget, if_true, Option.getD_some, Option.isSome_some, true_and]
    refine ⟨⟨?_, l1, r1⟩, split_length hc _ _ _, ⟨l3, r3⟩, ?_⟩
    · rw [l2, r2]; omega
    · intro j hj
      exact ⟨by simp [Ne.symm hj], l4 j hj, r4 j hj⟩

/-- `"build"` (0) is the only key of a freshly built tree -/
theorem Built.absent {ub : Nat} {mins : List α} {m d : Nat} {data : List (List α)} {t : Tree α}
    (h : Built ub mins m d data t) {j : Nat} (hj : j ≠ 0) : Absent j t := by
  induction h with
  | nil h => trivial
  | leaf h hs => simp [Absent, cget, Ne.symm hj]
  | node h hs hl hr ihl ihr => exact ⟨by simp [cget, Ne.symm hj], ihl, ihr⟩

/-- `s` is the subtree of `t` reached by some path, `q` are the rows of `pts` that the stored
    splits route to it, `ds` its depth (when `t` is at depth `d`) -/
inductive Holds : Tree α → Nat → List (List α) → Tree α → Nat → List (List α) → Prop
  | here (t : Tree α) (d : Nat) (pts : List (List α)) : Holds t d pts t d pts
  | left {a : Nat} {mid : α} {c : Counts} {l r s : Tree α} {d ds : Nat} {pts q : List (List α)}
      (h : Holds l (d + 1) (pts.filter (goesDown a mid)) s ds q) : Holds (.node a mid c l r) d pts s ds q
  | right {a : Nat} {mid : α} {c : Counts} {l r s : Tree α} {d ds : Nat} {pts q : List (List α)}
      (h : Holds r (d + 1) (pts.filter (goesUp a mid)) s ds q) : Holds (.node a mid c l r) d pts s ds q

/-- every subtree of a built tree is the built tree of the rows it holds -/
theorem Built.holds {ub : Nat} {mins : List α} {m d ds : Nat} {data q : List (List α)} {t s : Tree α}
    (h : Built ub mins m d data t) (hh : Holds t d data s ds q) : Built ub mins m ds q s := by
  induction hh with
  | here => exact h
  | left _ ih => cases h with | node _ _ hl hr => exact ih hl
  | right _ ih => cases h with | node _ _ hl hr => exact ih hr

/-- filling the very rows a tree was built from (under a new id, or with reset) writes the
    build counts at every node object; needs no assumption on the carrier at all -/
theorem Built.fill_same {ub : Nat} {mins : List α} {m d : Nat} {data : List (List α)} {t : Tree α}
    (h : Built ub mins m d data t) (id : Nat) (rs : Bool) (hfresh : rs = true ∨ Absent id t) :
    nodeCounts id (fill id rs data t) = nodeCounts 0 t := by
  induction h with
  | nil h => simp [fill, nodeCounts]
  | leaf h hs =>
    simp only [fill, nodeCounts, cget_cbump_self, cget, if_true]
    rcases hfresh with h | h
    · simp [h]
    · have hne : ¬ (0 = id) := by intro e; subst e; simp [Absent, cget] at h
      simp [hne]
  | @node d data l r h hs hl hr ihl ihr =>
    have hl' : rs = true ∨ Absent id l := hfresh.imp (fun h => h) (fun h => h.2.1)
    have hr' : rs = true ∨ Absent id r := hfresh.imp (fun h => h) (fun h => h.2.2)
    simp only [fill, nodeCounts, cget_cbump_self, cget, if_true, ihl hl', ihr hr']
    rcases hfresh with h | h
    · simp [h]
    · have hne : ¬ (0 = id) := by intro e; subst e; simp [Absent, cget] at h
      simp [hne]

end built2

/-! ### cells -/

section cells
variable {α : Type} [Inhabited α] [LT α] [DecidableLT α] [LE α] [DecidableLE α]

theorem numLeaves_node (a : Nat) (mid : α) (c : Counts) (l r : Tree α) :
    (Tree.node a mid c l r).numLeaves = l.numLeaves + r.numLeaves := by
  simp [Tree.numLeaves, Tree.leaves]

theorem numLeaves_pos {t : Tree α} (h : t.noNilBelow = true) : 0 < t.numLeaves := by
  induction t with
  | nil => simp [Tree.noNilBelow] at h
  | leaf c => simp [Tree.numLeaves, Tree.leaves]
  | node a mid c l r ihl ihr =>
    simp only [Tree.noNilBelow, Bool.and_eq_true] at h
    rw [numLeaves_node]; have := ihl h.1; omega

theorem numLeaves_fill (id : Nat) (rs : Bool) (t : Tree α) :
    ∀ pts : List (List α), (fill id rs pts t).numLeaves = t.numLeaves := by
  induction t with
  | nil => intro pts; rfl
  | leaf c => intro pts; rfl
  | node a mid c l r ihl ihr => intro pts; simp only [fill, numLeaves_node, ihl, ihr]

/-- after an overwriting `fill`, leaf number `k` holds exactly the rows of the sample that lie
    in its cell -/
theorem leafCounts_fill_cells (id : Nat) (rs : Bool) (t : Tree α) :
    ∀ pts : List (List α), (rs = true ∨ Absent id t) →
      leafCountsD (fill id rs pts t) id =
        (List.range t.numLeaves).map (fun k => (pts.filter (fun p => inCell p t k)).length) := by
  induction t with
  | nil => intro pts _; simp [fill, leafCountsD, Tree.leaves, Tree.numLeaves]
  | leaf c =>
    intro pts h
    have hv : (if rs = true then pts.length else match cget c id with | some o => o + pts.length | none => pts.length)
        = pts.length := by
      rcases h with h | h
      · simp [h]
      · simp only [Absent] at h; simp [h]
    have hf : pts.filter (fun _ => true) = pts := List.filter_eq_self.mpr (fun _ _ => rfl)
    simp [fill, leafCountsD, Tree.leaves, Tree.numLeaves, cget_cbump_self, hv, inCell, List.range_succ, hf]
  | node a mid c l r ihl ihr =>
    intro pts h
    have hl : rs = true ∨ Absent id l := h.imp (fun h => h) (fun h => h.2.1)
    have hr : rs = true ∨ Absent id r := h.imp (fun h => h) (fun h => h.2.2)
    have el := ihl (pts.filter (goesDown a mid)) hl
    have er := ihr (pts.filter (goesUp a mid)) hr
    simp only [leafCountsD] at el er ⊢
    simp only [fill, Tree.leaves, List.map_append, el, er, numLeaves_node, List.range_add, List.map_map]
    congr 1
    · apply List.map_congr_left
      intro k hk
      have hk' : k < l.numLeaves := List.mem_range.mp hk
      simp only [List.filter_filter, inCell, hk', if_true]
      congr 1; apply List.filter_congr; intro p _; exact Bool.and_comm _ _
    · apply List.map_congr_left
      intro k _
      have hk' : ¬ (l.numLeaves + k < l.numLeaves) := by omega
      simp only [Function.comp, List.filter_filter, inCell, hk', if_false, Nat.add_sub_cancel_left]
      congr 1; apply List.filter_congr; intro p _; exact Bool.and_comm _ _

theorem descend_lt {t : Tree α} (h : t.noNilBelow = true) (p : List α) : descend p t < t.numLeaves := by
  induction t with
  | nil => simp [Tree.noNilBelow] at h
  | leaf c => simp [descend, Tree.numLeaves, Tree.leaves]
  | node a mid c l r ihl ihr =>
    simp only [Tree.noNilBelow, Bool.and_eq_true] at h
    have := ihl h.1; have := ihr h.2
    simp only [descend, numLeaves_node]
    split <;> omega

/-- the cells of the leaves partition the space: a point lies in the cell of leaf `k` iff
    `k` is the leaf its descent reaches — exactly one leaf -/
theorem inCell_iff_descend (hc : Compl α) {t : Tree α} (h : t.noNilBelow = true) (p : List α) :
    ∀ k, k < t.numLeaves → (inCell p t k = true ↔ k = descend p t) := by
  induction t with
  | nil => simp [Tree.noNilBelow] at h
  | leaf c => intro k hk; simp [Tree.numLeaves, Tree.leaves] at hk; simp [inCell, descend, hk]
  | node a mid c l r ihl ihr =>
    intro k hk
    simp only [Tree.noNilBelow, Bool.and_eq_true] at h
    rw [numLeaves_node] at hk
    have hud := goesUp_eq_not_goesDown hc a mid p
    have dl := descend_lt h.1 p
    simp only [inCell, descend]
    by_cases hkl : k < l.numLeaves
    · simp only [hkl, if_true, Bool.and_eq_true]
      cases hd : goesDown a mid p
      · simp [hud, hd]; omega
      · simp only [hud, hd, Bool.not_true, Bool.false_eq_true, if_false, true_and]
        exact ihl h.1 k hkl
    · simp only [hkl, if_false, Bool.and_eq_true]
      cases hd : goesDown a mid p
      · simp only [hud, hd, Bool.not_false, if_true, true_and]
        rw [ihr h.2 (k - l.numLeaves) (by omega)]; omega
      · simp [hud, hd]; omega

end cells

/-! ### flatten -/

section flat
variable {α : Type}

/-- the node objects of a tree in pre-order -/
def subtrees : Tree α → List (Tree α)
  | .nil => []
  | .leaf c => [.leaf c]
  | .node a mid c l r => .node a mid c l r :: (subtrees l ++ subtrees r)

theorem subtrees_length (t : Tree α) : (subtrees t).length = t.numNodes := by
  induction t with
  | nil => rfl
  | leaf c => rfl
  | node a mid c l r ihl ihr => simp [subtrees, Tree.numNodes, ihl, ihr]; omega

/-- the count difference a row should carry -/
def diffOf (id1 : Nat) (id2 : Option Nat) (s : Tree α) : Option Int :=
  id2.map (fun j => ((s.rootCount j : Nat) : Int) - ((s.rootCount id1 : Nat) : Int))

theorem mkRow_diff (c : Counts) (n1 : Nat) (id2 : Option Nat) (idx : Nat) (par : Option Nat) (d : Nat)
    (via : Option (Nat × Bool)) :
    (mkRow c n1 id2 idx par d via).diff = id2.map (fun j => (((cget c j).getD 0 : Nat) : Int) - (n1 : Int)) := by
  cases id2 with
  | none => rfl
  | some j => simp only [mkRow, Option.map_some]; cases cget c j <;> simp

theorem flattenAux_spec (id1 : Nat) (id2 : Option Nat) (t : Tree α) (hp : Present id1 t) :
    ∀ (i0 : Nat) (par : Option Nat) (d0 : Nat) (via0 : Option (Nat × Bool)),
      (flattenAux id1 id2 t i0 par d0 via0).length = t.numNodes ∧
      (flattenAux id1 id2 t i0 par d0 via0).map (·.idx) = List.range' i0 t.numNodes ∧
      (flattenAux id1 id2 t i0 par d0 via0).map (·.cell) = (subtrees t).map (·.rootCount id1) ∧
      (flattenAux id1 id2 t i0 par d0 via0).map (·.diff) = (subtrees t).map (diffOf id1 id2) := by
  induction t with
  | nil => intro i0 par d0 via0; simp [flattenAux, Tree.numNodes, subtrees]
  | leaf c =>
    intro i0 par d0 via0
    simp only [Present] at hp
    obtain ⟨n1, hn⟩ := Option.isSome_iff_exists.mp hp
    simp [flattenAux, hn, Tree.numNodes, subtrees, mkRow_diff, diffOf]
    simp [mkRow]
  | node a mid c l r ihl ihr =>
    intro i0 par d0 via0
    obtain ⟨hp0, hpl, hpr⟩ := hp
    obtain ⟨n1, hn⟩ := Option.isSome_iff_exists.mp hp0
    obtain ⟨l1, l2, l3, l4⟩ := ihl hpl (i0 + 1) (some i0) (d0 + 1) (some (a, false))
    obtain ⟨r1, r2, r3, r4⟩ := ihr hpr (i0 + 1 + (flattenAux id1 id2 l (i0 + 1) (some i0) (d0 + 1) (some (a, false))).length)
      (some i0) (d0 + 1) (some (a, true))
    rw [l1] at r1 r2 r3 r4
    simp only [flattenAux, hn, List.length_cons, List.length_append, List.map_cons, List.map_append, l1, r1, l2, l3, l4,
      r2, r3, r4, Tree.numNodes, subtrees, mkRow_diff, diffOf, rootCount_node, Option.getD_some]
    refine ⟨by omega, ?_, ?_, trivial⟩
    · rw [show 1 + l.numNodes + r.numNodes = (l.numNodes + r.numNodes) + 1 by omega, List.range'_succ]
      simp only [mkRow]
      rw [← List.range'_append_1]
    · simp [mkRow]

theorem subtrees_head (t : Tree α) (h : t.numNodes ≠ 0) : ∃ rest, subtrees t = t :: rest := by
  cases t with
  | nil => simp [Tree.numNodes] at h
  | leaf c => exact ⟨[], rfl⟩
  | node a mid c l r => exact ⟨_, rfl⟩

/-- under the children-sum rule no node counts more than the root -/
theorem rootCount_le_root (id : Nat) (t : Tree α) (h : ChildrenSum id t) :
    ∀ s ∈ subtrees t, s.rootCount id ≤ t.rootCount id := by
  induction t with
  | nil => intro s hs; simp [subtrees] at hs
  | leaf c => intro s hs; simp [subtrees] at hs; subst hs; exact Nat.le_refl _
  | node a mid c l r ihl ihr =>
    obtain ⟨h0, hl, hr⟩ := h
    intro s hs
    simp only [subtrees, List.mem_cons, List.mem_append] at hs
    rcases hs with rfl | hs | hs
    · exact Nat.le_refl _
    · have := ihl hl s hs; omega
    · have := ihr hr s hs; omega

theorem foldl_max_ub (xs : List Nat) (x : Nat) (h : ∀ y ∈ xs, y ≤ x) :
    ∀ acc, acc ≤ x → xs.foldl Nat.max acc ≤ x := by
  induction xs with
  | nil => intro acc ha; simpa using ha
  | cons y ys ih =>
    intro acc ha
    simp only [List.foldl_cons]
    apply ih (fun z hz => h z (List.mem_cons_of_mem _ hz))
    have := h y (List.mem_cons_self)
    exact Nat.max_le.mpr ⟨ha, this⟩

theorem foldl_max_lb (xs : List Nat) :
    ∀ acc, acc ≤ xs.foldl Nat.max acc ∧ ∀ y ∈ xs, y ≤ xs.foldl Nat.max acc := by
  induction xs with
  | nil => intro acc; simp
  | cons y ys ih =>
    intro acc
    simp only [List.foldl_cons]
    obtain ⟨h1, h2⟩ := ih (Nat.max acc y)
    refine ⟨Nat.le_trans (Nat.le_max_left _ _) h1, ?_⟩
    intro z hz
    simp only [List.mem_cons] at hz
    rcases hz with rfl | hz
    · exact Nat.le_trans (Nat.le_max_right _ _) h1
    · exact h2 z hz

theorem maxNat_eq {xs : List Nat} {x : Nat} (hx : x ∈ xs) (h : ∀ y ∈ xs, y ≤ x) : maxNat xs = x :=
  Nat.le_antisymm (foldl_max_ub xs x h 0 (Nat.zero_le _)) ((foldl_max_lb xs 0).2 x hx)

/-- the node object with pre-order number `k` (the root is 0, the left child of number `p` is
    `p + 1`, its right child `p + 1 + numNodes left`), together with its depth -/
def nodeAt : Tree α → Nat → Option (Tree α × Nat)
  | .nil, _ => none
  | .leaf c, k => if k = 0 then some (.leaf c, 0) else none
  | .node a mid c l r, k =>
    if k = 0 then some (.node a mid c l r, 0)
    else if k - 1 < l.numNodes then (nodeAt l (k - 1)).map (fun p => (p.1, p.2 + 1))
    else (nodeAt r (k - 1 - l.numNodes)).map (fun p => (p.1, p.2 + 1))

theorem nodeAt_lt (t : Tree α) : ∀ k s d, nodeAt t k = some (s, d) → k < t.numNodes := by
  induction t with
  | nil => intro k s d h; simp [nodeAt] at h
  | leaf c => intro k s d h; simp only [nodeAt] at h; split at h <;> simp_all [Tree.numNodes]
  | node a mid c l r ihl ihr =>
    intro k s d h
    simp only [nodeAt] at h
    simp only [Tree.numNodes]
    split at h
    · omega
    · split at h
      · omega
      · cases h2 : nodeAt r (k - 1 - l.numNodes) with
        | none => simp [h2] at h
        | some p => have := ihr _ p.1 p.2 (by rw [h2]); omega

/-- what a row must say about its parent: either it is the first row of this (sub)tree and
    carries the values handed down, or its parent is the node with pre-order number `p`, an
    internal node one level higher, and the row's own number is that of `p`'s left or right
    child (with the matching `name` information) -/
def RowOK (t : Tree α) (i0 : Nat) (par : Option Nat) (d0 : Nat) (via0 : Option (Nat × Bool)) (row : Row) : Prop :=
  (row.idx = i0 ∧ row.parent = par ∧ row.depth = d0 ∧ row.via = via0) ∨
  (∃ p a mid c l r dp, row.parent = some p ∧ i0 ≤ p ∧ nodeAt t (p - i0) = some (Tree.node a mid c l r, dp) ∧
    row.depth = d0 + dp + 1 ∧
    ((row.idx = p + 1 ∧ row.via = some (a, false)) ∨ (row.idx = p + 1 + l.numNodes ∧ row.via = some (a, true))))

theorem flattenAux_parent (id1 : Nat) (id2 : Option Nat) (t : Tree α) (hp : Present id1 t) :
    ∀ (i0 : Nat) (par : Option Nat) (d0 : Nat) (via0 : Option (Nat × Bool)),
      ∀ row ∈ flattenAux id1 id2 t i0 par d0 via0, RowOK t i0 par d0 via0 row := by
  induction t with
  | nil => intro i0 par d0 via0 row h; simp [flattenAux] at h
  | leaf c =>
    intro i0 par d0 via0 row h
    simp only [Present] at hp
    obtain ⟨n1, hn⟩ := Option.isSome_iff_exists.mp hp
    simp only [flattenAux, hn, List.mem_singleton] at h
    subst h
    exact Or.inl ⟨rfl, rfl, rfl, rfl⟩
  | node a mid c l r ihl ihr =>
    intro i0 par d0 via0 row h
    obtain ⟨hp0, hpl, hpr⟩ := hp
    obtain ⟨n1, hn⟩ := Option.isSome_iff_exists.mp hp0
    have hlen := (flattenAux_spec id1 id2 l hpl (i0 + 1) (some i0) (d0 + 1) (some (a, false))).1
    simp only [flattenAux, hn, List.mem_cons, List.mem_append] at h
    rcases h with h | h | h
    · subst h; exact Or.inl ⟨rfl, rfl, rfl, rfl⟩
    · right
      rcases ihl hpl _ _ _ _ row h with ⟨h1, h2, h3, h4⟩ | ⟨p, a', mid', c', l', r', dp, h1, h2, h3, h4, h5⟩
      · exact ⟨i0, a, mid, c, l, r, 0, h2, Nat.le_refl _, by simp [nodeAt], by omega, Or.inl ⟨h1, h4⟩⟩
      · have hlt := nodeAt_lt l _ _ _ h3
        refine ⟨p, a', mid', c', l', r', dp + 1, h1, by omega, ?_, by omega, h5⟩
        have e1 : p - i0 ≠ 0 := by omega
        have e2 : p - i0 - 1 < l.numNodes := by omega
        have e3 : p - i0 - 1 = p - (i0 + 1) := by omega
        simp only [nodeAt, e1, if_false, e2, if_true, e3, h3, Option.map_some, hlt]
    · right
      rw [hlen] at h
      rcases ihr hpr _ _ _ _ row h with ⟨h1, h2, h3, h4⟩ | ⟨p, a', mid', c', l', r', dp, h1, h2, h3, h4, h5⟩
      · exact ⟨i0, a, mid, c, l, r, 0, h2, Nat.le_refl _, by simp [nodeAt], by omega, Or.inr ⟨h1, h4⟩⟩
      · refine ⟨p, a', mid', c', l', r', dp + 1, h1, by omega, ?_, by omega, h5⟩
        have e1 : p - i0 ≠ 0 := by omega
        have e2 : ¬ (p - i0 - 1 < l.numNodes) := by omega
        have e3 : p - i0 - 1 - l.numNodes = p - (i0 + 1 + l.numNodes) := by omega
        rw [nodeAt, if_neg e1, if_neg e2, e3, h3]; rfl

end flat

end MV.Kdq
