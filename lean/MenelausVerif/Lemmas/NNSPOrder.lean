/-
  Lemmas for C10: the model's `np.unique(axis=0, return_inverse=True)` over a linear
  order — `unique` is the strictly sorted list of the distinct rows, `indexIn` is the
  position in it, and the one-hot vectors are exact membership indicators.
-/
import MenelausVerif.Model.NNSP
import Mathlib.Data.List.Lex
import Mathlib.Order.Basic
import Mathlib.Data.List.Nodup
namespace MV.NNSP

variable {α : Type} [LinearOrder α]

/-- the model's row comparison is the lexicographic order on rows -/
theorem rowLt_iff (a b : Row α) : rowLt a b = true ↔ a < b := by
  induction a generalizing b with
  | nil => cases b <;> simp [rowLt]
  | cons x xs ih =>
    cases b with
    | nil => simp [rowLt]
    | cons y ys =>
      simp only [rowLt, List.cons_lt_cons_iff]
      by_cases h1 : x < y
      · simp [h1]
      · by_cases h2 : y < x
        · simp [h1, h2]; intro h; exact absurd h2 (by simp [h])
        · have : x = y := le_antisymm (not_lt.mp h2) (not_lt.mp h1)
          simp [this, ih]

theorem rowLt_false_iff (a b : Row α) : rowLt a b = false ↔ b ≤ a := by
  rw [← not_lt, ← rowLt_iff]; simp

theorem rowEq_iff (a b : Row α) : rowEq a b = true ↔ a = b := by
  unfold rowEq
  simp only [Bool.and_eq_true, Bool.not_eq_true', rowLt_false_iff]
  constructor
  · intro h; exact le_antisymm h.2 h.1
  · intro h; simp [h]

/-! ### sorting -/

omit [LinearOrder α] in
theorem mem_insertRow [LT α] [DecidableLT α] (r x : Row α) (l : List (Row α)) :
    x ∈ insertRow r l ↔ x = r ∨ x ∈ l := by
  induction l with
  | nil => simp [insertRow]
  | cons y ys ih =>
    unfold insertRow
    split
    · simp [ih]; tauto
    · simp

omit [LinearOrder α] in
theorem mem_sortRows [LT α] [DecidableLT α] (x : Row α) (l : List (Row α)) : x ∈ sortRows l ↔ x ∈ l := by
  induction l with
  | nil => simp [sortRows]
  | cons y ys ih =>
    have : sortRows (y :: ys) = insertRow y (sortRows ys) := rfl
    rw [this, mem_insertRow, ih]; simp

theorem sorted_insertRow (r : Row α) (l : List (Row α)) (h : l.Pairwise (· ≤ ·)) :
    (insertRow r l).Pairwise (· ≤ ·) := by
  induction l with
  | nil => simp [insertRow]
  | cons y ys ih =>
    unfold insertRow
    rw [List.pairwise_cons] at h
    split
    · rename_i hlt
      rw [rowLt_iff] at hlt
      rw [List.pairwise_cons]
      refine ⟨?_, ih h.2⟩
      intro z hz
      rw [mem_insertRow] at hz
      rcases hz with rfl | hz
      · exact le_of_lt hlt
      · exact h.1 z hz
    · rename_i hlt
      have hle : r ≤ y := by
        have := (rowLt_false_iff y r).mp (by simpa using hlt)
        exact this
      rw [List.pairwise_cons]
      refine ⟨?_, List.pairwise_cons.mpr h⟩
      intro z hz
      rcases List.mem_cons.mp hz with rfl | hz
      · exact hle
      · exact le_trans hle (h.1 z hz)

theorem sorted_sortRows (l : List (Row α)) : (sortRows l).Pairwise (· ≤ ·) := by
  induction l with
  | nil => simp [sortRows]
  | cons y ys ih => exact sorted_insertRow y _ ih

/-! ### adjacent de-duplication of a sorted list -/

theorem dedupFrom_spec (prev : Row α) (ys : List (Row α)) (h : (prev :: ys).Pairwise (· ≤ ·)) :
    (prev :: dedupFrom prev ys).Pairwise (· < ·) ∧ ∀ x, x ∈ prev :: dedupFrom prev ys ↔ x ∈ prev :: ys := by
  induction ys generalizing prev with
  | nil => simp [dedupFrom]
  | cons y ys ih =>
    rw [List.pairwise_cons] at h
    obtain ⟨hp, hs⟩ := h
    obtain ⟨ihs, ihm⟩ := ih y hs
    unfold dedupFrom
    by_cases he : rowEq prev y = true
    · rw [if_pos he]
      have : prev = y := (rowEq_iff _ _).mp he
      subst this
      refine ⟨ihs, ?_⟩
      intro x; rw [ihm]; simp
    · rw [if_neg he]
      have hne : prev ≠ y := fun e => he ((rowEq_iff _ _).mpr e)
      have hlt : prev < y := lt_of_le_of_ne (hp y (by simp)) hne
      constructor
      · rw [List.pairwise_cons]
        refine ⟨?_, ihs⟩
        intro z hz
        rw [ihm] at hz
        rcases List.mem_cons.mp hz with rfl | hz
        · exact hlt
        · exact lt_of_lt_of_le hlt ((List.pairwise_cons.mp hs).1 z hz)
      · intro x
        simp only [List.mem_cons] at ihm ⊢
        rw [ihm]

/-- `D` is strictly increasing in the lexicographic order (hence duplicate-free) and has
    exactly the rows of the input -/
theorem unique_spec (l : List (Row α)) :
    (unique l).Pairwise (· < ·) ∧ ∀ x, x ∈ unique l ↔ x ∈ l := by
  unfold unique
  have hs := sorted_sortRows l
  have hm := fun x => mem_sortRows x l
  generalize sortRows l = s at hs hm
  cases s with
  | nil => simp [dedupAdj]; intro x; rw [← hm]; simp
  | cons y ys =>
    obtain ⟨h1, h2⟩ := dedupFrom_spec y ys hs
    exact ⟨h1, fun x => by rw [← hm]; exact h2 x⟩

theorem unique_nodup (l : List (Row α)) : (unique l).Nodup := by
  have := (unique_spec l).1
  exact this.imp (fun h => ne_of_lt h)

/-! ### inverse index and one-hot vectors -/

theorem indexIn_eq_idxOf (pool : List (Row α)) (r : Row α) : indexIn pool r = pool.idxOf r := by
  unfold indexIn List.idxOf
  congr 1
  funext p
  rw [Bool.eq_iff_iff, rowEq_iff]; simp

omit [LinearOrder α] in
theorem onehot_eq (n : Nat) (idx : List Nat) :
    onehot n idx = (List.range n).map (fun i => decide (i ∈ idx)) := by
  unfold onehot
  apply List.map_congr_left
  intro i _
  simp

/-- the one-hot vector of the inverse indices of `s` over a duplicate-free pool that
    contains `s` marks exactly the pool points that occur in `s` -/
theorem onehot_index (pool : List (Row α)) (hn : pool.Nodup) (s : List (Row α)) :
    onehot pool.length (s.map (indexIn pool)) = pool.map (fun p => decide (p ∈ s)) := by
  rw [onehot_eq]
  apply List.ext_getElem
  · simp
  · intro i h1 h2
    simp only [List.getElem_map, List.getElem_range]
    rw [Bool.eq_iff_iff]
    simp only [decide_eq_true_eq, List.mem_map]
    have hi : i < pool.length := by simpa using h2
    constructor
    · rintro ⟨r, hr, hri⟩
      rw [indexIn_eq_idxOf] at hri
      have : pool[i] = r := by
        subst hri
        exact List.getElem_idxOf _
      rw [this]; exact hr
    · intro hmem
      refine ⟨pool[i], hmem, ?_⟩
      rw [indexIn_eq_idxOf]
      exact hn.idxOf_getElem i hi

end MV.NNSP
