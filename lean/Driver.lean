/-
  `mdriver`: executes the Lean models over a line protocol (stdin → stdout), one
  output line per input line.  Imports only model/driver modules (no Mathlib) so
  that it links as a native executable.
-/
import MenelausVerif.Driver.Core
import MenelausVerif.Driver.Election
import MenelausVerif.Driver.Lifecycle
import MenelausVerif.Driver.Sequential
import MenelausVerif.Driver.Ensemble
import MenelausVerif.Driver.NNSP
import MenelausVerif.Driver.MD3
import MenelausVerif.Driver.Inject
import MenelausVerif.Driver.LFR
import MenelausVerif.Driver.ErrDetectors
import MenelausVerif.Driver.PCACD
import MenelausVerif.Driver.Adwin
import MenelausVerif.Driver.HDM
import MenelausVerif.Driver.KdqTree
import MenelausVerif.Driver.KdqDetect
import MenelausVerif.Driver.Validate
import MenelausVerif.Driver.Scaler
open MV.Driver

def registry : List (List String → Option Machine) :=
  [mkElection, mkLifecycle, mkSequential, mkEnsemble, mkNNSP, mkMD3, mkInject, mkLFR, mkErrDetectors, mkPCACD, mkAdwin, mkHDM, mkKdqTree, mkKdqDetect, mkValidate, mkScaler]

def mkMachine (ts : List String) : Option Machine :=
  registry.findSome? (fun f => f ts)

def idle : Machine := pureMachine (fun _ => none)

partial def loop (h : IO.FS.Stream) (out : IO.FS.Stream) (m : Machine) : IO Unit := do
  let line ← h.getLine
  if line.isEmpty then return ()
  let toks := (line.trimAscii.toString.splitOn " ").filter (· ≠ "")
  match toks with
  | [] => out.putStrLn "" ; loop h out m
  | "new" :: rest =>
    match mkMachine rest with
    | some m' => out.putStrLn "ok"; loop h out m'
    | none => out.putStrLn "bad-new"; loop h out idle
  | _ =>
    let (o, m') := m.feed toks
    out.putStrLn o
    loop h out m'

def main : IO Unit := do
  let i ← IO.getStdin
  let o ← IO.getStdout
  loop i o idle
  o.flush
