-- Root of the `MenelausVerif` proof library.
import MenelausVerif.Base.Drift
import MenelausVerif.Base.Arith
import MenelausVerif.Model.Election
import MenelausVerif.Model.PageHinkley
import MenelausVerif.Model.Lifecycle
import MenelausVerif.Props.C13
import MenelausVerif.Props.C01
import MenelausVerif.Props.C01Models
import MenelausVerif.Props.C02
import MenelausVerif.Props.C17
import MenelausVerif.Props.C17PH
import MenelausVerif.Model.Cusum
import MenelausVerif.Props.C04
